#!/bin/sh
# Offline setup: checks that the tools the checks rely on are present. Nothing that depends on /repo is prebuilt:
# every check rebuilds /repo's current working tree (incrementally) into /verif/build/<config>.
set -e
cd "$(dirname "$0")"
for t in java cmake ninja g++ python3 jq; do command -v $t >/dev/null || { echo "missing tool: $t"; exit 1; }; done
test -f /opt/veriftools/tla/tla2tools.jar || { echo "missing tla2tools.jar"; exit 1; }
mkdir -p build evidence replays
echo "setup ok"
