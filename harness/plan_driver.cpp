// plan_driver: reads and solves one RIDDLE problem with the real solver and records, as NDJSON, what the library
// did (every clause as given, every literal definition, every operator translation, every asserted fact) and, when
// solve() returns true, the complete solution it exposes (truth values, arithmetic values, object domains, atoms with
// their parameters, flaws / resolvers / causal links, extracted timelines). Validated by spec/PlanTrace.tla.
//
//   plan_driver <out.ndjson> <timeout_s> <name> <file.rddl>... [--then <file.rddl>...]...
//
// With --then the problem is given incrementally: the files before it are read and solved (verdict and solution are
// recorded), the solver is taken back to root level (as the repository's own incremental client does), then the next
// group is read into the same solver and solved again, and so on.
// --script: every file is handed to read(const std::string &) as text instead of read(files).
// --recover: a group whose reading is rejected with a reported error is recorded ("rejected") and the session goes on
//            with the next group, as a client that catches the error and keeps using the solver does.
//
// Needs a build with BUILD_LISTENERS (configuration dbg_exec / rel_exec) for the causal graph; without it the flaws
// section is empty.
#include "solver.h"
#include "atom.h"
#include "predicate.h"
#include "field.h"
#include "type.h"
#include "item.h"
#include "atom_flaw.h"
#include "verif_hooks.h"
#include "verif_core_hooks.h"
#ifdef BUILD_LISTENERS
#include "solver_listener.h"
#endif
#ifdef VERIF_EXECUTOR
#include "executor.h"
#include "executor_listener.h"
#include <random>
#endif
#include "vjson.h"
#include <chrono>
#include <csignal>
#include <cstdio>
#include <cstring>
#include <fstream>
#include <iostream>
#include <queue>
#include <sstream>
#include <unistd.h>

using namespace smt;
using namespace ratio;

static FILE *g_out = nullptr;
static std::string g_name;
static const char *g_phase = "init";
static bool g_wide = false;
static const long WIDE = 1000000;

static std::string jnum(long v)
{
    if (std::labs(v) > WIDE)
        g_wide = true;
    return std::to_string(v);
}
static std::string js(const rational &q) { return "[" + jnum(q.numerator()) + "," + jnum(q.denominator()) + "]"; }
static std::string js(const inf_rational &e) { return "[" + js(e.get_rational()) + "," + js(e.get_infinitesimal()) + "]"; }
static std::string js(const lin &l)
{
    std::string s = "{\"v\":[";
    bool first = true;
    for (const auto &[v, c] : l.vars)
    {
        if (!first)
            s += ",";
        first = false;
        s += "[" + std::to_string(v) + "," + jnum(c.numerator()) + "," + jnum(c.denominator()) + "]";
    }
    return s + "],\"k\":" + js(l.known_term) + "}";
}
static std::string jlits(const std::vector<lit> &ls)
{
    std::string s = "[";
    for (size_t i = 0; i < ls.size(); ++i)
        s += (i ? "," : "") + std::to_string(index(ls[i]));
    return s + "]";
}

static void emit_event(const std::string &what, const std::string &extra = "")
{
    fprintf(g_out, "{\"e\":\"%s\",\"name\":\"%s\",\"phase\":\"%s\"%s}\n", what.c_str(), vj::esc(g_name).c_str(), g_phase, extra.c_str());
    fflush(g_out);
}
static void on_signal(int sig)
{
    if (sig == SIGALRM)
        emit_event("timeout");
    else
        emit_event("abort", ",\"sig\":" + std::to_string(sig));
    _exit(sig == SIGALRM ? 4 : 3);
}
static void on_terminate()
{
    std::string what = "terminate";
    if (auto ep = std::current_exception())
    {
        try
        {
            std::rethrow_exception(ep);
        }
        catch (const std::exception &ex)
        {
            what = ex.what();
        }
        catch (...)
        {
            what = "unknown exception";
        }
    }
    emit_event("abort", ",\"sig\":-1,\"what\":\"" + vj::esc(what) + "\"");
    _exit(3);
}

// ---- tracers -----------------------------------------------------------------------------------------------------
struct net_tracer : public smt::verif::tracer
{
    size_t n_sat = 0, n_lra = 0;
    std::vector<std::string> clauses, learnts, defs, lras, dists, dls, ovvars, oveqs;
    std::map<const var_value *, int> *ids = nullptr;
    int (*id_of)(const void *) = nullptr;

    void new_sat_var(const sat_core &, var id) override { n_sat = id + 1; }
    void new_lra_var(const void *, var id) override { n_lra = id + 1; }
    void clause(const sat_core &, const std::vector<lit> &ls, bool r) override { clauses.push_back("{\"lits\":" + jlits(ls) + ",\"ret\":" + (r ? "1" : "0") + "}"); }
    void learnt(const sat_core &, const std::vector<lit> &ls, int o) override { learnts.push_back("{\"lits\":" + jlits(ls) + ",\"o\":" + std::to_string(o) + "}"); }
    void def_bool(const sat_core &, const char *kind, const std::vector<lit> &args, lit r) override { defs.push_back(std::string("{\"kind\":\"") + kind + "\",\"args\":" + jlits(args) + ",\"ret\":" + std::to_string(index(r)) + "}"); }
    void def_lra(const void *, const char *op, const lin &l, const lin &r, lit res) override { lras.push_back(std::string("{\"rel\":\"") + op + "\",\"l\":" + js(l) + ",\"r\":" + js(r) + ",\"ret\":" + std::to_string(index(res)) + "}"); }
    void def_dist(const void *, bool real, var from, var to, const inf_rational &d, lit res) override { dists.push_back(std::string("{\"real\":") + (real ? "1" : "0") + ",\"from\":" + std::to_string(from) + ",\"to\":" + std::to_string(to) + ",\"d\":" + js(d) + ",\"ret\":" + std::to_string(index(res)) + "}"); }
    void def_dl(const void *, bool real, const char *op, const lin &l, const lin &r, lit res) override { dls.push_back(std::string("{\"real\":") + (real ? "1" : "0") + ",\"rel\":\"" + op + "\",\"l\":" + js(l) + ",\"r\":" + js(r) + ",\"ret\":" + std::to_string(index(res)) + "}"); }
    void def_ov_var(const void *, var id, const std::vector<var_value *> &vals, const std::vector<lit> &lits) override
    {
        std::string s = "{\"id\":" + std::to_string(id) + ",\"vals\":[";
        for (size_t i = 0; i < vals.size(); ++i)
            s += (i ? "," : "") + std::to_string(id_of(static_cast<const item *>(vals[i])));
        ovvars.push_back(s + "],\"lits\":" + jlits(lits) + "}");
    }
    void def_ov_eq(const void *, var a, var b, lit res) override { oveqs.push_back("{\"a\":" + std::to_string(a) + ",\"b\":" + std::to_string(b) + ",\"ret\":" + std::to_string(index(res)) + "}"); }
};

static std::map<const void *, int> g_ids;       // items: contiguous ids 1..N in first-seen order
static std::vector<item *> g_items;             // g_items[id - 1]
static std::map<const void *, int> g_fids, g_rids; // flaws and resolvers
static std::vector<expr> g_keep; // keeps the traced expressions alive (their addresses are the identities)
static int id_of(const void *p)
{
    auto it = g_ids.find(p);
    if (it != g_ids.end())
        return it->second;
    int id = (int)g_ids.size() + 1;
    g_ids.emplace(p, id);
    g_items.push_back(const_cast<item *>(static_cast<const item *>(p)));
    return id;
}
static int fid_of(const void *p)
{
    auto it = g_fids.find(p);
    return it == g_fids.end() ? 0 : it->second;
}
static int rid_of(const void *p)
{
    auto it = g_rids.find(p);
    return it == g_rids.end() ? 0 : it->second;
}

struct core_tr : public ratio::verif::core_tracer
{
    std::vector<std::string> ops, asserts;
    void op(core &, const char *name, const std::vector<expr> &args, const expr &res) override
    {
        std::string s = std::string("{\"op\":\"") + name + "\",\"args\":[";
        for (size_t i = 0; i < args.size(); ++i)
        {
            g_keep.push_back(args[i]);
            s += (i ? "," : "") + std::to_string(id_of(&*args[i]));
        }
        g_keep.push_back(res);
        ops.push_back(s + "],\"res\":" + std::to_string(id_of(&*res)) + "}");
    }
    void asserted(core &, const lit &ni, const lit &f) override { asserts.push_back("{\"ni\":" + std::to_string(index(ni)) + ",\"f\":" + std::to_string(index(f)) + "}"); }
};

#ifdef BUILD_LISTENERS
struct graph_listener : public solver_listener
{
    std::vector<const flaw *> flaws;
    std::vector<const resolver *> resolvers;
    std::vector<std::pair<const flaw *, const resolver *>> links;
    graph_listener(solver &s) : solver_listener(s) {}
    void flaw_created(const flaw &f) override { flaws.push_back(&f); }
    void resolver_created(const resolver &r) override { resolvers.push_back(&r); }
    void causal_link_added(const flaw &f, const resolver &r) override { links.emplace_back(&f, &r); }
};
#endif

static net_tracer g_nt;
static core_tr g_ct;

// ---- projection of the solution --------------------------------------------------------------------------------------
static std::string item_desc(solver &s, item &i)
{
    std::string d = "{\"id\":" + std::to_string(id_of(&i)) + ",\"type\":\"" + vj::esc(i.get_type().get_name()) + "\"";
    if (bool_item *b = dynamic_cast<bool_item *>(&i))
        d += ",\"t\":\"b\",\"l\":" + std::to_string(index(b->l)) + ",\"lin\":{\"v\":[],\"k\":[0,1]},\"ev\":-1,\"str\":\"\"";
    else if (arith_item *a = dynamic_cast<arith_item *>(&i))
        d += ",\"t\":\"a\",\"l\":0,\"lin\":" + js(a->l) + ",\"ev\":-1,\"str\":\"\"";
    else if (var_item *v = dynamic_cast<var_item *>(&i))
        d += ",\"t\":\"v\",\"l\":0,\"lin\":{\"v\":[],\"k\":[0,1]},\"ev\":" + std::to_string(v->ev) + ",\"str\":\"\"";
    else if (string_item *st = dynamic_cast<string_item *>(&i))
        d += ",\"t\":\"s\",\"l\":0,\"lin\":{\"v\":[],\"k\":[0,1]},\"ev\":-1,\"str\":\"" + vj::esc(st->get_value()) + "\"";
    else
        d += ",\"t\":\"o\",\"l\":0,\"lin\":{\"v\":[],\"k\":[0,1]},\"ev\":-1,\"str\":\"\"";
    (void)s;
    return d + "}";
}

static void all_supertypes(const type &t, std::vector<std::string> &out)
{
    out.push_back(t.get_name());
    for (const auto &st : t.get_supertypes())
        all_supertypes(*st, out);
}

// re-emits a json value produced by the repository's json library with item addresses replaced by small ids
static std::string reid(const vj::val &v, const std::string &key = "")
{
    switch (v.k)
    {
    case vj::val::NUM:
        if ((key == "id" || key == "atoms_elem") && g_ids.count(reinterpret_cast<const void *>(v.num)))
            return std::to_string(g_ids.at(reinterpret_cast<const void *>(v.num)));
        if (key == "id" || key == "atoms_elem")
            return "0";
        return jnum(v.num);
    case vj::val::STR:
        return "\"" + vj::esc(v.str) + "\"";
    case vj::val::ARR:
    {
        std::string s = "[";
        for (size_t i = 0; i < v.arr.size(); ++i)
            s += (i ? "," : "") + reid(v.arr[i], (key == "atoms" || key == "values") ? "atoms_elem" : "");
        return s + "]";
    }
    case vj::val::OBJ:
    {
        std::string s = "{";
        bool first = true;
        for (const auto &[k, x] : v.obj)
        {
            s += (first ? "\"" : ",\"") + k + "\":" + reid(x, k);
            first = false;
        }
        return s + "}";
    }
    default:
        return "0";
    }
}

static std::string join(const std::vector<std::string> &v)
{
    std::string s = "[";
    for (size_t i = 0; i < v.size(); ++i)
        s += (i ? "," : "") + v[i];
    return s + "]";
}

#ifdef BUILD_LISTENERS
static void dump_solution(solver &s, graph_listener &gl, double secs)
#else
static void dump_solution(solver &s, double secs)
#endif
{
    g_phase = "dump";
    // items: every object instance, every atom and its parameters, every traced expression
    auto add_item = [&](item *i)
    { id_of(i); };
    std::vector<std::string> objects, atoms;
    std::queue<const type *> q;
    std::vector<const predicate *> preds;
    for (const auto &[n, p] : s.get_predicates())
        preds.push_back(p);
    for (const auto &[n, t] : s.get_types())
        if (!t->is_primitive())
            q.push(t);
    std::set<const type *> visited;
    while (!q.empty())
    {
        const type *t = q.front();
        q.pop();
        if (!visited.insert(t).second)
            continue;
        for (const auto &[n, p] : t->get_predicates())
            preds.push_back(p);
        for (const auto &[n, st] : t->get_types())
            q.push(st);
        for (const auto &i : t->get_instances())
        {
            item *it = &*i;
            if (&it->get_type() != t)
                continue; // listed once, under its own type
            add_item(it);
            std::vector<std::string> sup;
            all_supertypes(*t, sup);
            std::string o = "{\"id\":" + std::to_string(id_of(it)) + ",\"type\":\"" + vj::esc(t->get_full_name()) + "\",\"supers\":[";
            for (size_t k = 0; k < sup.size(); ++k)
                o += (k ? ",\"" : "\"") + vj::esc(sup[k]) + "\"";
            o += "],\"fields\":[";
            bool first = true;
            for (const auto &[fn, fx] : it->get_exprs())
            {
                add_item(&*fx);
                o += (first ? "[\"" : ",[\"") + vj::esc(fn) + "\"," + std::to_string(id_of(&*fx)) + "]";
                first = false;
            }
            objects.push_back(o + "]}");
        }
    }
    std::set<const atom *> atom_seen;
    for (const auto &p : preds)
        for (const auto &ai : p->get_instances())
        {
            atom *a = static_cast<atom *>(&*ai);
            if (&a->get_type() != p || !atom_seen.insert(a).second)
                continue;
            add_item(a);
            std::vector<std::string> sup;
            all_supertypes(*p, sup);
            // the type that owns the predicate and its supertypes (smart types: StateVariable, ReusableResource, ...)
            std::vector<std::string> owner;
            if (const type *ot = dynamic_cast<const type *>(&p->get_scope()))
                all_supertypes(*ot, owner);
            std::string o = "{\"id\":" + std::to_string(id_of(a)) + ",\"pred\":\"" + vj::esc(p->get_full_name()) + "\",\"sigma\":" + std::to_string(a->get_sigma());
            o += std::string(",\"interval\":") + (s.is_interval(*a) ? "1" : "0") + ",\"impulse\":" + (s.is_impulse(*a) ? "1" : "0") + ",\"supers\":[";
            for (size_t k = 0; k < sup.size(); ++k)
                o += (k ? ",\"" : "\"") + vj::esc(sup[k]) + "\"";
            o += "],\"owner\":[";
            for (size_t k = 0; k < owner.size(); ++k)
                o += (k ? ",\"" : "\"") + vj::esc(owner[k]) + "\"";
            o += "],\"pars\":[";
            bool first = true;
            for (const auto &[fn, fx] : a->get_exprs())
            {
                add_item(&*fx);
                // whether the parameter is synthetic (tau, this, ...): looked up in the predicate hierarchy
                int synth = 0;
                std::queue<const type *> tq;
                tq.push(p);
                while (!tq.empty())
                {
                    const auto &fs = tq.front()->get_fields();
                    if (auto f = fs.find(fn); f != fs.end())
                        synth = f->second->is_synthetic() ? 1 : 0;
                    for (const auto &st : tq.front()->get_supertypes())
                        tq.push(st);
                    tq.pop();
                }
                o += (first ? "[\"" : ",[\"") + vj::esc(fn) + "\"," + std::to_string(id_of(&*fx)) + "," + std::to_string(synth) + "]";
                first = false;
            }
            atoms.push_back(o + "]}");
        }
    for (const auto &e : g_keep)
        add_item(&*e);
    // top-level named expressions
    std::string tops = "[";
    {
        bool first = true;
        for (const auto &[n, x] : s.get_exprs())
        {
            add_item(&*x);
            tops += (first ? "[\"" : ",[\"") + vj::esc(n) + "\"," + std::to_string(id_of(&*x)) + "]";
            first = false;
        }
        tops += "]";
    }
    std::vector<std::string> item_descs;
    for (size_t i = 0; i < g_items.size(); ++i) // describing an item never registers new ones
        item_descs.push_back(item_desc(s, *g_items[i]));

    // the network-level values
    std::string vals = "[", lra = "[", rdl = "[", idl = "[";
    for (size_t v = 0; v < g_nt.n_sat; ++v)
        vals += (v ? "," : "") + std::to_string(s.get_sat_core().value((var)v));
    for (size_t v = 0; v < g_nt.n_lra; ++v)
        lra += (v ? "," : "") + js(s.get_lra_theory().value((var)v));
    for (size_t v = 0; v < s.get_rdl_theory().size(); ++v)
        rdl += (v ? "," : "") + ("[" + js(s.get_rdl_theory().lb((var)v)) + "," + js(s.get_rdl_theory().ub((var)v)) + "]");
    for (size_t v = 0; v < s.get_idl_theory().size(); ++v)
    {
        const I lb = s.get_idl_theory().lb((var)v);
        idl += (v ? "," : "") + std::to_string(lb <= -idl_theory::inf() ? -999999 : lb);
    }
    vals += "]";
    lra += "]";
    rdl += "]";
    idl += "]";

    // flaws, resolvers, causal links
    std::vector<std::string> jflaws, jres, jlinks;
#ifdef BUILD_LISTENERS
    for (size_t i = 0; i < gl.flaws.size(); ++i)
        g_fids.emplace(gl.flaws[i], (int)i + 1);
    for (size_t i = 0; i < gl.resolvers.size(); ++i)
        g_rids.emplace(gl.resolvers[i], (int)i + 1);
    for (const auto &f : gl.flaws)
    {
        std::string o = "{\"id\":" + std::to_string(fid_of(f)) + ",\"phi\":" + std::to_string(index(f->get_phi())) + ",\"pos\":" + std::to_string(f->get_position()) + ",\"expanded\":" + (f->is_expanded() ? "1" : "0");
        if (const atom_flaw *af = dynamic_cast<const atom_flaw *>(f))
            o += ",\"kind\":\"atom\",\"atom\":" + std::to_string(id_of(&af->get_atom())) + ",\"fact\":" + (af->is_fact ? "1" : "0");
        else
        {
            std::string kind = "other";
            try
            {
                vj::val d = vj::parse(f->get_data());
                if (d.has("type"))
                    kind = d["type"].s();
            }
            catch (...)
            {
            }
            o += ",\"kind\":\"" + vj::esc(kind) + "\",\"atom\":0,\"fact\":0";
        }
        o += ",\"causes\":[";
        for (size_t i = 0; i < f->get_causes().size(); ++i)
            o += (i ? "," : "") + std::to_string(rid_of(f->get_causes()[i]));
        o += "],\"resolvers\":[";
        for (size_t i = 0; i < f->get_resolvers().size(); ++i)
            o += (i ? "," : "") + std::to_string(rid_of(f->get_resolvers()[i]));
        jflaws.push_back(o + "]}");
    }
    for (const auto &r : gl.resolvers)
    {
        std::string kind = "other";
        int target = 0;
        try
        {
            vj::val d = vj::parse(r->get_data());
            if (d.has("type"))
                kind = d["type"].s();
            if (d.has("target"))
            {
                long t = d["target"].k == vj::val::STR ? atol(d["target"].s().c_str()) : d["target"].i();
                target = g_ids.count(reinterpret_cast<const void *>(t)) ? g_ids.at(reinterpret_cast<const void *>(t)) : 0;
            }
        }
        catch (...)
        {
        }
        std::string o = "{\"id\":" + std::to_string(rid_of(r)) + ",\"rho\":" + std::to_string(index(r->get_rho())) + ",\"kind\":\"" + vj::esc(kind) + "\",\"target\":" + std::to_string(target) + ",\"effect\":" + std::to_string(fid_of(&r->get_effect())) + ",\"pre\":[";
        for (size_t i = 0; i < r->get_preconditions().size(); ++i)
            o += (i ? "," : "") + std::to_string(fid_of(r->get_preconditions()[i]));
        jres.push_back(o + "]}");
    }
    for (const auto &[f, r] : gl.links)
        jlinks.push_back("[" + std::to_string(fid_of(f)) + "," + std::to_string(rid_of(r)) + "]");
#endif

    // timelines
    std::string tls = "[]";
    {
        std::stringstream ss;
        s.extract_timelines().to_json(ss);
        try
        {
            tls = reid(vj::parse(ss.str()));
        }
        catch (const std::exception &ex)
        {
            tls = "[{\"error\":\"" + vj::esc(ex.what()) + "\"}]";
        }
    }
    arith_expr origin = s.get("origin"), horizon = s.get("horizon");

    std::string line = "{\"e\":\"solution\",\"name\":\"" + vj::esc(g_name) + "\",\"secs\":" + std::to_string((long)(secs * 1000)) +
                       ",\"n\":" + std::to_string(g_nt.n_sat) + ",\"vals\":" + vals + ",\"lra\":" + lra + ",\"rdl\":" + rdl + ",\"idl\":" + idl +
                       ",\"origin\":" + js(s.arith_value(origin)) + ",\"horizon\":" + js(s.arith_value(horizon)) +
                       ",\"clauses\":" + join(g_nt.clauses) + ",\"learnts\":" + join(g_nt.learnts) + ",\"defs\":" + join(g_nt.defs) +
                       ",\"lras\":" + join(g_nt.lras) + ",\"dists\":" + join(g_nt.dists) + ",\"dls\":" + join(g_nt.dls) +
                       ",\"ovvars\":" + join(g_nt.ovvars) + ",\"oveqs\":" + join(g_nt.oveqs) +
                       ",\"ops\":" + join(g_ct.ops) + ",\"asserts\":" + join(g_ct.asserts) +
                       ",\"items\":" + join(item_descs) + ",\"objects\":" + join(objects) + ",\"atoms\":" + join(atoms) + ",\"tops\":" + tops +
                       ",\"flaws\":" + join(jflaws) + ",\"resolvers\":" + join(jres) + ",\"links\":" + join(jlinks) +
                       ",\"timelines\":" + tls + "}";
    if (g_wide && getenv("VERIF_WIDE_DEBUG"))
        fprintf(stderr, "%s\n", line.c_str());
    if (g_wide)
        emit_event("wide");
    else
    {
        fputs(line.c_str(), g_out);
        fputc('\n', g_out);
        fflush(g_out);
    }
}

#ifdef VERIF_EXECUTOR
// ---- executor mode (C19): tick-by-tick execution with a scripted client -------------------------------------------------
// scripted client (--xscript): the start / end of the atom of rank r (rank among the plan's atoms, by identifier) is delayed
// the first 'count' times it is proposed, by 'delay' units; at tick 'fail_tick' the atom of rank 'fail_rank' fails
static bool g_scripted = false;
static std::map<int, std::pair<int, long>> g_xs_start, g_xs_end;
static int g_fail_tick = -1, g_fail_rank = -1;
static std::map<const atom *, int> g_rank;

struct exec_client : public executor_listener
{
    solver &s;
    executor &ex;
    std::mt19937 rng;
    int p_delay_start, p_delay_end; // percent
    std::vector<std::string> events;
    exec_client(solver &s, executor &ex, unsigned seed, int pds, int pde) : executor_listener(ex), s(s), ex(ex), rng(seed), p_delay_start(pds), p_delay_end(pde) {}

    std::string atoms_with(const std::unordered_set<atom *> &atms, bool start_value)
    {
        std::vector<std::pair<int, std::string>> v;
        for (const auto &a : atms)
        {
            arith_expr x = s.is_impulse(*a) ? a->get(RATIO_AT) : (start_value ? a->get(RATIO_START) : a->get(RATIO_END));
            v.emplace_back(id_of(a), js(s.arith_value(x)));
        }
        std::sort(v.begin(), v.end());
        std::string o = "[";
        for (size_t i = 0; i < v.size(); ++i)
            o += (i ? ",[" : "[") + std::to_string(v[i].first) + "," + v[i].second + "]";
        return o + "]";
    }
    // the atoms of a callback in the order of their identifiers (the iteration order of the set depends on addresses)
    static std::vector<atom *> ordered(const std::unordered_set<atom *> &atms)
    {
        std::vector<atom *> v(atms.begin(), atms.end());
        std::sort(v.begin(), v.end(), [](atom *a, atom *b) { return id_of(a) < id_of(b); });
        return v;
    }
    void log(const std::string &l) { events.push_back(l); }
    void tick(const smt::rational &time) override { log("{\"e\":\"x_tick\",\"time\":" + js(time) + "}"); }
    void starting(const std::unordered_set<atom *> &atms) override
    {
        log("{\"e\":\"x_starting\",\"atoms\":" + atoms_with(atms, true) + "}");
        std::unordered_map<const atom *, smt::rational> req;
        std::string r = "[";
        if (g_scripted)
            for (const auto &a : ordered(atms)) // atoms that entered the plan later (after a failure) get the next ranks
                if (!g_rank.count(a))
                {
                    const int r = (int)g_rank.size();
                    g_rank[a] = r;
                }
        for (const auto &a : ordered(atms))
            if (g_scripted ? (g_rank.count(a) && g_xs_start.count(g_rank.at(a)) && g_xs_start.at(g_rank.at(a)).first-- > 0) : ((int)(rng() % 100) < p_delay_start))
            {
                const long d = g_scripted ? g_xs_start.at(g_rank.at(a)).second : 1 + (long)(rng() % 2);
                req.emplace(a, smt::rational(d));
                r += (r.size() > 1 ? ",[" : "[") + std::to_string(id_of(a)) + "," + std::to_string(d) + "]";
            }
        if (!req.empty())
        {
            log("{\"e\":\"x_dont_start\",\"req\":" + r + "]}");
            ex.dont_start_yet(req);
        }
    }
    void start(const std::unordered_set<atom *> &atms) override { log("{\"e\":\"x_start\",\"atoms\":" + atoms_with(atms, true) + "}"); }
    void ending(const std::unordered_set<atom *> &atms) override
    {
        log("{\"e\":\"x_ending\",\"atoms\":" + atoms_with(atms, false) + "}");
        std::unordered_map<const atom *, smt::rational> req;
        std::string r = "[";
        for (const auto &a : ordered(atms))
            if (g_scripted ? (g_rank.count(a) && g_xs_end.count(g_rank.at(a)) && g_xs_end.at(g_rank.at(a)).first-- > 0) : ((int)(rng() % 100) < p_delay_end))
            {
                const long d = g_scripted ? g_xs_end.at(g_rank.at(a)).second : 1 + (long)(rng() % 2);
                req.emplace(a, smt::rational(d));
                r += (r.size() > 1 ? ",[" : "[") + std::to_string(id_of(a)) + "," + std::to_string(d) + "]";
            }
        if (!req.empty())
        {
            log("{\"e\":\"x_dont_end\",\"req\":" + r + "]}");
            ex.dont_end_yet(req);
        }
    }
    void end(const std::unordered_set<atom *> &atms) override { log("{\"e\":\"x_end\",\"atoms\":" + atoms_with(atms, false) + "}"); }
};

static std::vector<atom *> relevant_atoms(solver &s)
{ // the active interval / impulse atoms
    std::vector<atom *> res;
    std::set<atom *> seen;
    std::queue<const type *> q;
    std::vector<const predicate *> preds;
    for (const auto &[n, p] : s.get_predicates())
        preds.push_back(p);
    for (const auto &[n, t] : s.get_types())
        if (!t->is_primitive())
            q.push(t);
    std::set<const type *> visited;
    while (!q.empty())
    {
        const type *t = q.front();
        q.pop();
        if (!visited.insert(t).second)
            continue;
        for (const auto &[n, p] : t->get_predicates())
            preds.push_back(p);
        for (const auto &[n, st] : t->get_types())
            q.push(st);
    }
    for (const auto &p : preds)
        if (s.is_impulse(*p) || s.is_interval(*p))
            for (const auto &ai : p->get_instances())
            {
                atom *a = static_cast<atom *>(&*ai);
                if (s.get_sat_core().value(a->get_sigma()) == True && seen.insert(a).second)
                    res.push_back(a);
            }
    return res;
}
static void emit_plan(solver &s, executor &ex)
{
    std::vector<std::pair<int, std::string>> v;
    for (const auto &a : relevant_atoms(s))
    {
        const bool imp = s.is_impulse(*a);
        arith_expr st = imp ? a->get(RATIO_AT) : a->get(RATIO_START);
        arith_expr en = imp ? a->get(RATIO_AT) : a->get(RATIO_END);
        v.emplace_back(id_of(a), "{\"id\":" + std::to_string(id_of(a)) + ",\"imp\":" + (imp ? "1" : "0") + ",\"s\":" + js(s.arith_value(st)) + ",\"e\":" + js(s.arith_value(en)) + "}");
    }
    std::sort(v.begin(), v.end());
    std::string o = "{\"e\":\"x_plan\",\"t\":" + js(ex.get_current_time()) + ",\"atoms\":[";
    for (size_t i = 0; i < v.size(); ++i)
        o += (i ? "," : "") + v[i].second;
    fprintf(g_out, "%s]}\n", o.c_str());
    fflush(g_out);
}
#endif

int main(int argc, char **argv)
{
    if (argc < 5)
    {
        fprintf(stderr, "usage: plan_driver <out.ndjson> <timeout_s> <name> <file.rddl>...\n");
        return 2;
    }
    g_out = fopen(argv[1], "w");
    const int timeout_s = atoi(argv[2]);
    g_name = argv[3];
    std::vector<std::string> files;
    std::vector<std::vector<std::string>> more; // the groups of files read after the first solve (incremental use)
    bool exec_mode = false, as_script = false, recover = false;
    unsigned x_seed = 1;
    int x_pds = 0, x_pde = 0, x_pf = 0, x_ticks = 30;
    for (int i = 4; i < argc; ++i)
        if (!strcmp(argv[i], "--exec") && i + 5 < argc)
        {
            exec_mode = true;
            x_seed = (unsigned)atol(argv[i + 1]);
            x_pds = atoi(argv[i + 2]);
            x_pde = atoi(argv[i + 3]);
            x_pf = atoi(argv[i + 4]);
            x_ticks = atoi(argv[i + 5]);
            i += 5;
        }
#ifdef VERIF_EXECUTOR
        else if (!strcmp(argv[i], "--xscript") && i + 2 < argc)
        { // e.g. s0=2x2,e1=1x1,f=6:1  followed by the number of ticks
            exec_mode = true;
            g_scripted = true;
            std::stringstream ss(argv[i + 1]);
            std::string item;
            while (std::getline(ss, item, ','))
            {
                if (item.size() > 2 && item[0] == 'f' && item[1] == '=')
                    sscanf(item.c_str(), "f=%d:%d", &g_fail_tick, &g_fail_rank);
                else if (item.size() > 3 && (item[0] == 's' || item[0] == 'e'))
                {
                    int r = 0, c = 0;
                    long d = 1;
                    sscanf(item.c_str() + 1, "%d=%dx%ld", &r, &c, &d);
                    (item[0] == 's' ? g_xs_start : g_xs_end)[r] = {c, d};
                }
            }
            x_ticks = atoi(argv[i + 2]);
            i += 2;
        }
#endif
        else if (!strcmp(argv[i], "--script"))
            as_script = true;
        else if (!strcmp(argv[i], "--recover"))
            recover = true;
        else if (!strcmp(argv[i], "--then"))
            more.emplace_back();
        else if (!more.empty())
            more.back().push_back(argv[i]);
        else
            files.push_back(argv[i]);
    (void)exec_mode; (void)x_seed; (void)x_pds; (void)x_pde; (void)x_pf; (void)x_ticks;
    std::set_terminate(on_terminate);
    signal(SIGABRT, on_signal);
    signal(SIGSEGV, on_signal);
    signal(SIGFPE, on_signal);
    signal(SIGALRM, on_signal);
    alarm(timeout_s);

    g_nt.id_of = id_of;
    smt::verif::current() = &g_nt;
    ratio::verif::current_core() = &g_ct;
    const auto t0 = std::chrono::steady_clock::now();
    int rc = 0;
    {
        g_phase = "init";
        solver s;
#ifdef VERIF_EXECUTOR
        executor ex(s);
        exec_client xl(s, ex, x_seed, x_pds, x_pde);
#endif
#ifdef BUILD_LISTENERS
        graph_listener gl(s);
#endif
        std::string verdict;
        try
        {
            auto read_group = [&](const std::vector<std::string> &fs) -> bool
            { // returns false when the group was rejected and the session recovers
                try
                {
                    if (as_script)
                        for (const auto &f : fs)
                        {
                            std::ifstream in(f);
                            std::stringstream ss;
                            ss << in.rdbuf();
                            s.read(ss.str());
                        }
                    else
                        s.read(fs);
                    return true;
                }
                catch (const unsolvable_exception &)
                {
                    throw;
                }
                catch (const inconsistency_exception &)
                {
                    throw;
                }
                catch (const std::exception &ex)
                {
                    if (!recover)
                        throw;
                    emit_event("rejected", ",\"what\":\"" + vj::esc(ex.what()) + "\"");
                    return false;
                }
            };
            g_phase = "read";
            const bool first_ok = read_group(files);
            g_phase = "solve";
            verdict = !first_ok ? "rejected" : s.solve() ? "solved" : "unsolvable";
            for (size_t step = 0; step < more.size() && (verdict == "solved" || verdict == "rejected"); ++step)
            { // incremental use: the solution so far is recorded, then more of the problem is read
                if (verdict == "solved")
                {
                const double secs0 = std::chrono::duration<double>(std::chrono::steady_clock::now() - t0).count();
                emit_event("verdict", ",\"verdict\":\"solved\",\"step\":" + std::to_string(step) + ",\"ms\":" + std::to_string((long)(secs0 * 1000)) + ",\"n\":" + std::to_string(g_nt.n_sat) + ",\"clauses\":" + std::to_string(g_nt.clauses.size()) + ",\"learnts\":" + std::to_string(g_nt.learnts.size()));
#ifdef BUILD_LISTENERS
                dump_solution(s, gl, secs0);
#else
                dump_solution(s, secs0);
#endif
                }
                g_phase = "read";
                while (!s.root_level()) // the protocol of the repository's own incremental client (executor/ros/deliberative_executor.cpp)
                    s.get_sat_core().pop();
                const bool ok = read_group(more[step]);
                g_phase = "solve";
                verdict = !ok ? "rejected" : s.solve() ? "solved" : "unsolvable";
            }
        }
        catch (const unsolvable_exception &)
        {
            verdict = std::string(g_phase) + "-unsolvable";
        }
        catch (const inconsistency_exception &)
        {
            verdict = std::string(g_phase) + "-inconsistent";
        }
        catch (const std::exception &ex)
        {
            verdict = std::string(g_phase) + "-error";
            emit_event("error", ",\"what\":\"" + vj::esc(ex.what()) + "\"");
        }
        const double secs = std::chrono::duration<double>(std::chrono::steady_clock::now() - t0).count();
        alarm(0);
        emit_event("verdict", ",\"verdict\":\"" + verdict + "\",\"ms\":" + std::to_string((long)(secs * 1000)) + ",\"n\":" + std::to_string(g_nt.n_sat) + ",\"clauses\":" + std::to_string(g_nt.clauses.size()) + ",\"learnts\":" + std::to_string(g_nt.learnts.size()));
        if (verdict == "solved")
        {
            alarm(60);
#ifdef BUILD_LISTENERS
            dump_solution(s, gl, secs);
#else
            dump_solution(s, secs);
#endif
            alarm(0);
        }
#ifdef VERIF_EXECUTOR
        if (exec_mode && verdict == "solved")
        {
            g_phase = "execute";
            std::mt19937 frng(x_seed * 7919u + 13u);
            emit_plan(s, ex);
            {
                auto ra = relevant_atoms(s);
                std::sort(ra.begin(), ra.end(), [](atom *a, atom *b) { return id_of(a) < id_of(b); });
                for (size_t r = 0; r < ra.size(); ++r)
                    g_rank[ra[r]] = (int)r;
            }
            bool alive = true;
            for (int t = 0; t < x_ticks && alive; ++t)
            {
                alarm(timeout_s);
                xl.events.clear();
                try
                {
                    // a failure of a not yet ended atom, injected between two ticks
                    if (g_scripted ? t == g_fail_tick : (x_pf > 0 && (int)(frng() % 100) < x_pf))
                    {
                        auto ra = relevant_atoms(s);
                        std::sort(ra.begin(), ra.end(), [](atom *a, atom *b) { return id_of(a) < id_of(b); });
                        if (g_scripted)
                        { // the scripted victim, if it is still part of the plan
                            std::vector<atom *> only;
                            for (auto *a : ra)
                                if (g_rank.count(a) && g_rank.at(a) == g_fail_rank)
                                    only.push_back(a);
                            ra = only;
                        }
                        if (!ra.empty())
                        {
                            atom *victim = g_scripted ? ra[0] : ra[frng() % ra.size()];
                            fprintf(g_out, "{\"e\":\"x_failure\",\"atoms\":[%d]}\n", id_of(victim));
                            fflush(g_out);
                            ex.failure({victim});
                            emit_plan(s, ex);
                            dump_solution(s, gl, 0);
                            g_phase = "execute";
                        }
                    }
                    fprintf(g_out, "{\"e\":\"x_call_tick\"}\n");
                    xl.events.clear();
                    ex.tick();
                    bool adapted = false;
                    for (const auto &e : xl.events)
                    {
                        fprintf(g_out, "%s\n", e.c_str());
                        if (e.find("x_dont_") != std::string::npos)
                            adapted = true;
                    }
                    emit_plan(s, ex);
                    if (adapted)
                    {
                        dump_solution(s, gl, 0);
                        g_phase = "execute";
                    }
                }
                catch (const execution_exception &)
                {
                    for (const auto &e : xl.events)
                        fprintf(g_out, "%s\n", e.c_str());
                    fprintf(g_out, "{\"e\":\"x_exception\"}\n");
                    alive = false;
                }
                catch (const unsolvable_exception &)
                {
                    for (const auto &e : xl.events)
                        fprintf(g_out, "%s\n", e.c_str());
                    fprintf(g_out, "{\"e\":\"x_exception\"}\n");
                    alive = false;
                }
                alarm(0);
            }
            fprintf(g_out, "{\"e\":\"x_done\",\"alive\":%d}\n", alive ? 1 : 0);
            fflush(g_out);
        }
#endif
        g_phase = "teardown";
        g_keep.clear();
    }
    smt::verif::current() = nullptr;
    ratio::verif::current_core() = nullptr;
    emit_event("done");
    fclose(g_out);
    return rc;
}
