// net_driver: drives the constraint network (sat_core + lra/idl/rdl/ov theories) through API histories and records,
// after every public call, the result, the hook events raised inside the call and the full projected state as one
// NDJSON line (validated by spec/NetworkTrace.tla).
//
//   net_driver gen <profile> <seed> <executions> <out.ndjson> [max_ops]
//   net_driver replay <in.ndjson> <out.ndjson>        re-executes the calls ("e" + arguments) of a recorded trace
//
// profiles: sat, reify, lra, idl, rdl, ov, mix.  Documented preconditions are respected: creation calls at root
// level, propagation queue empty before assume/check/next, valid difference-logic shapes, no use after a root-level
// inconsistency.
#include "sat_core.h"
#include "lra_theory.h"
#include "idl_theory.h"
#include "rdl_theory.h"
#include "ov_theory.h"
#include "verif_hooks.h"
#include "vjson.h"
#include <algorithm>
#include <cstdio>
#include <cstring>
#include <fstream>
#include <iostream>
#include <memory>
#include <random>
#include <set>
#include <sstream>
#include <csignal>
#include <unistd.h>

using namespace smt;

static const long WIDE = 20000;     // numbers beyond this magnitude make the execution "wide" (dropped, counted)
static const long INF_SENTINEL = 999999;
static bool g_wide = false;
static FILE *g_out = nullptr;
static std::vector<std::string> g_lines; // lines of the current execution
static long n_exec = 0, n_wide = 0, n_lines = 0, n_aborted = 0;

static void flush_partial_and_exit(int sig)
{
    if (g_out)
    {
        for (const auto &l : g_lines)
            fprintf(g_out, "%s\n", l.c_str());
        fprintf(g_out, "{\"e\":\"abort\",\"sig\":%d}\n", sig);
        fflush(g_out);
    }
    _exit(3);
}
static void on_terminate()
{
    flush_partial_and_exit(-1);
}

// ---- JSON output -----------------------------------------------------------------------------------------------
static std::string jnum(long v)
{
    if (std::labs(v) > WIDE)
        g_wide = true;
    return std::to_string(v);
}
static std::string js(const rational &q) { return "[" + jnum(q.numerator()) + "," + jnum(q.denominator()) + "]"; }
static std::string js(const inf_rational &e) { return "[" + js(e.get_rational()) + "," + js(e.get_infinitesimal()) + "]"; }
// bounds and distances: an infinite rational part is infinite whatever the infinitesimal part says (it is an artefact of
// adding eps to an infinite bound), so it is printed in its canonical form
static std::string jsb(const inf_rational &e) { return is_infinite(e.get_rational()) ? "[" + js(e.get_rational()) + ",[0,1]]" : js(e); }
static std::string js(const lin &l)
{
    std::string s = "{\"v\":[";
    bool first = true;
    for (const auto &[v, c] : l.vars)
    {
        if (!first)
            s += ",";
        first = false;
        s += "[" + std::to_string(v) + "," + jnum(c.numerator()) + "," + jnum(c.denominator()) + "]";
    }
    return s + "],\"k\":" + js(l.known_term) + "}";
}
static std::string jlits(const std::vector<lit> &ls)
{
    std::string s = "[";
    for (size_t i = 0; i < ls.size(); ++i)
        s += (i ? "," : "") + std::to_string(index(ls[i]));
    return s + "]";
}
static std::string jidl(I d) { return d >= idl_theory::inf() ? std::to_string(INF_SENTINEL) : d <= -idl_theory::inf() ? std::to_string(-INF_SENTINEL) : jnum(d); }

// ---- JSON input --------------------------------------------------------------------------------------------------
static rational rd_rat(const vj::val &v) { return v[1].i() == 0 ? (v[0].i() > 0 ? rational::POSITIVE_INFINITY : rational::NEGATIVE_INFINITY) : rational(v[0].i(), v[1].i()); }
static inf_rational rd_irat(const vj::val &v) { return inf_rational(rd_rat(v[0]), rd_rat(v[1])); }
static lin rd_lin(const vj::val &v)
{
    lin l(rd_rat(v["k"]));
    for (size_t i = 0; i < v["v"].size(); ++i)
        l.vars.emplace((var)v["v"][i][0].i(), rational(v["v"][i][1].i(), v["v"][i][2].i()));
    return l;
}
static lit rd_lit(const vj::val &v) { return lit((var)(v.i() >> 1), v.i() & 1); }
static std::vector<lit> rd_lits(const vj::val &v)
{
    std::vector<lit> ls;
    for (size_t i = 0; i < v.size(); ++i)
        ls.push_back(rd_lit(v[i]));
    return ls;
}

// ---- the network under test --------------------------------------------------------------------------------------------
struct ov_val : public var_value
{
    int id;
    explicit ov_val(int id) : id(id) {}
};

struct net;
struct hook_tracer : public verif::tracer
{
    net *nt = nullptr;
    std::vector<std::string> hooks;
    size_t n_sat = 0, n_lra = 0;

    void new_sat_var(const sat_core &, var id) override { n_sat = id + 1; }
    void new_lra_var(const void *, var id) override { n_lra = id + 1; }
    void clause(const sat_core &, const std::vector<lit> &ls, bool r) override { hooks.push_back("{\"k\":\"clause\",\"lits\":" + jlits(ls) + ",\"ret\":" + (r ? "1" : "0") + "}"); }
    void learnt(const sat_core &, const std::vector<lit> &ls, int o) override { hooks.push_back("{\"k\":\"learnt\",\"lits\":" + jlits(ls) + ",\"o\":" + std::to_string(o) + "}"); }
    void def_bool(const sat_core &, const char *kind, const std::vector<lit> &args, lit r) override { hooks.push_back(std::string("{\"k\":\"def\",\"kind\":\"") + kind + "\",\"args\":" + jlits(args) + ",\"ret\":" + std::to_string(index(r)) + "}"); }
    void def_lra(const void *, const char *op, const lin &l, const lin &r, lit res) override { hooks.push_back(std::string("{\"k\":\"lra\",\"rel\":\"") + op + "\",\"l\":" + js(l) + ",\"r\":" + js(r) + ",\"ret\":" + std::to_string(index(res)) + "}"); }
    void def_dist(const void *, bool real, var from, var to, const inf_rational &d, lit res) override { hooks.push_back(std::string("{\"k\":\"dist\",\"real\":") + (real ? "1" : "0") + ",\"from\":" + std::to_string(from) + ",\"to\":" + std::to_string(to) + ",\"d\":" + js(d) + ",\"ret\":" + std::to_string(index(res)) + "}"); }
    void def_dl(const void *, bool real, const char *op, const lin &l, const lin &r, lit res) override { hooks.push_back(std::string("{\"k\":\"dl\",\"real\":") + (real ? "1" : "0") + ",\"rel\":\"" + op + "\",\"l\":" + js(l) + ",\"r\":" + js(r) + ",\"ret\":" + std::to_string(index(res)) + "}"); }
    void def_ov_var(const void *, var id, const std::vector<var_value *> &vals, const std::vector<lit> &lits) override
    {
        std::string s = "{\"k\":\"ovvar\",\"id\":" + std::to_string(id) + ",\"vals\":[";
        for (size_t i = 0; i < vals.size(); ++i)
            s += (i ? "," : "") + std::to_string(static_cast<ov_val *>(vals[i])->id);
        hooks.push_back(s + "],\"lits\":" + jlits(lits) + "}");
    }
    void def_ov_eq(const void *, var a, var b, lit res) override { hooks.push_back("{\"k\":\"oveq\",\"a\":" + std::to_string(a) + ",\"b\":" + std::to_string(b) + ",\"ret\":" + std::to_string(index(res)) + "}"); }
};

// a theory of the caller's own that reports conflicts outside propagation (what the executor does when a delay or a failure
// contradicts the plan): the conflict is a clause of literals that are all false now
struct ext_theory : public theory
{
    explicit ext_theory(sat_core &s) : theory(s) {}
    bool conflict(const std::vector<lit> &c)
    {
        cnfl = c;
        return backtrack_analyze_and_backjump();
    }

private:
    bool propagate(const lit &) override { return true; }
    bool check() override { return true; }
    void push() override {}
    void pop() override {}
};

struct net
{
    sat_core sat;
    lra_theory lra;
    ov_theory ov;
    idl_theory idl;
    rdl_theory rdl;
    ext_theory ext;
    std::vector<std::unique_ptr<ov_val>> values;
    std::vector<var> ov_vars;
    std::vector<std::vector<int>> ov_doms;
    std::set<var> ov_free; // object variables created without the exactly-one constraint
    bool stable = true;             // the propagation queue is empty and the last propagation succeeded
    bool dead = false;              // a root-level inconsistency was reported: the execution ends
    std::vector<bool> stable_stack; // 'stable' at the moment of each standing assume
    std::vector<bool> fresh_stack;  // whether each standing decision was unassigned when it was taken

    net(size_t dl_size) : sat(), lra(sat), ov(sat), idl(sat, dl_size), rdl(sat, dl_size), ext(sat)
    {
        for (int i = 0; i < 6; ++i)
            values.emplace_back(new ov_val(i));
    }
};

static hook_tracer g_tr;
static std::unique_ptr<net> g_net;

static std::string observables()
{
    net &n = *g_net;
    std::string s = "\"n\":" + std::to_string(g_tr.n_sat) + ",\"vals\":[";
    for (size_t v = 0; v < g_tr.n_sat; ++v)
        s += (v ? "," : "") + std::to_string(n.sat.value((var)v));
    s += "],\"decs\":" + jlits(n.sat.get_decisions()) + ",\"dl\":" + std::to_string(n.sat.decision_level()) + ",\"stable\":" + (n.stable ? "1" : "0");
    s += ",\"hooks\":[";
    for (size_t i = 0; i < g_tr.hooks.size(); ++i)
        s += (i ? "," : "") + g_tr.hooks[i];
    s += "],\"obs\":{\"lra\":[";
    for (size_t v = 0; v < g_tr.n_lra; ++v)
        s += (v ? "," : "") + ("[" + jsb(n.lra.lb((var)v)) + "," + jsb(n.lra.ub((var)v)) + "," + js(n.lra.value((var)v)) + "]");
    s += "],\"idl\":[";
    for (size_t i = 0; i < n.idl.size(); ++i)
    {
        s += i ? ",[" : "[";
        for (size_t j = 0; j < n.idl.size(); ++j)
            s += (j ? "," : "") + jidl(n.idl.distance((var)i, (var)j).second);
        s += "]";
    }
    s += "],\"rdl\":[";
    for (size_t i = 0; i < n.rdl.size(); ++i)
    {
        s += i ? ",[" : "[";
        for (size_t j = 0; j < n.rdl.size(); ++j)
            s += (j ? "," : "") + jsb(n.rdl.distance((var)i, (var)j).second);
        s += "]";
    }
    s += "],\"ov\":[";
    for (size_t i = 0; i < n.ov_vars.size(); ++i)
    {
        std::vector<int> dom;
        for (const auto &v : n.ov.value(n.ov_vars[i]))
            dom.push_back(static_cast<ov_val *>(v)->id);
        std::sort(dom.begin(), dom.end());
        s += i ? ",[" : "[";
        for (size_t j = 0; j < dom.size(); ++j)
            s += (j ? "," : "") + std::to_string(dom[j]);
        s += "]";
    }
    s += "]}";
    return s;
}

static bool g_lean = false; // profile "cache": thousands of variables, only the calls and their definitions are recorded
static void emit(const std::string &head)
{
    if (g_lean)
    {
        std::string s = "{" + head + ",\"hooks\":[";
        for (size_t i = 0; i < g_tr.hooks.size(); ++i)
            s += (i ? "," : "") + g_tr.hooks[i];
        g_lines.push_back(s + "]}");
    }
    else
        g_lines.push_back("{" + head + "," + observables() + "}");
    g_tr.hooks.clear();
}

static void root_result(bool ok)
{ // result of a creation call / propagate at root level
    net &n = *g_net;
    if (!ok && n.sat.root_level())
        n.dead = true;
}

// executes one call; returns false when the op cannot be executed (malformed / precondition would be violated)
static bool exec_op(const vj::val &op)
{
    net &n = *g_net;
    const std::string &e = op["e"].s();
    g_tr.hooks.clear();
    if (e == "new_var")
    {
        var v = n.sat.new_var();
        emit("\"e\":\"new_var\",\"ret\":" + std::to_string(v));
    }
    else if (e == "new_clause")
    {
        if (!n.sat.root_level())
            return false;
        auto ls = rd_lits(op["lits"]);
        bool r = n.sat.new_clause(ls);
        n.stable = false;
        root_result(r);
        emit("\"e\":\"new_clause\",\"lits\":" + jlits(ls) + ",\"ret\":" + (r ? "1" : "0"));
    }
    else if (e == "new_eq" || e == "new_conj" || e == "new_disj" || e == "new_amo" || e == "new_exo")
    {
        if (!n.sat.root_level())
            return false;
        auto ls = rd_lits(op["args"]);
        lit r = e == "new_eq" ? n.sat.new_eq(ls.at(0), ls.at(1)) : e == "new_conj" ? n.sat.new_conj(ls)
                                                              : e == "new_disj"   ? n.sat.new_disj(ls)
                                                              : e == "new_amo"    ? n.sat.new_at_most_one(ls)
                                                                                  : n.sat.new_exct_one(ls);
        n.stable = false;
        emit("\"e\":\"" + e + "\",\"kind\":\"" + e.substr(4) + "\",\"args\":" + jlits(ls) + ",\"ret\":" + std::to_string(index(r)));
    }
    else if (e == "assume")
    {
        if (!n.stable)
            return false;
        lit p = rd_lit(op["p"]);
        const bool fresh = n.sat.value(p) == Undefined;
        const size_t dl0 = n.sat.decision_level();
        n.stable_stack.push_back(n.stable);
        n.fresh_stack.push_back(fresh);
        bool r = n.sat.assume(p);
        n.stable_stack.resize(n.sat.decision_level());
        n.fresh_stack.resize(n.sat.decision_level());
        n.stable = r;
        root_result(r);
        (void)dl0;
        emit("\"e\":\"assume\",\"p\":" + std::to_string(index(p)) + ",\"ret\":" + (r ? "1" : "0"));
    }
    else if (e == "pop")
    {
        if (n.sat.root_level())
            return false;
        n.sat.pop();
        n.stable = n.stable_stack.back();
        n.stable_stack.pop_back();
        n.fresh_stack.pop_back();
        emit("\"e\":\"pop\"");
    }
    else if (e == "propagate")
    {
        bool r = n.sat.propagate();
        n.stable_stack.resize(n.sat.decision_level());
        n.fresh_stack.resize(n.sat.decision_level());
        n.stable = r;
        root_result(r);
        emit(std::string("\"e\":\"propagate\",\"ret\":") + (r ? "1" : "0"));
    }
    else if (e == "next")
    {
        if (!n.stable || std::find(n.fresh_stack.begin(), n.fresh_stack.end(), false) != n.fresh_stack.end())
            return false;
        bool r = n.sat.next();
        n.stable_stack.resize(n.sat.decision_level());
        n.fresh_stack.resize(n.sat.decision_level());
        n.stable = r;
        root_result(r);
        emit(std::string("\"e\":\"next\",\"ret\":") + (r ? "1" : "0"));
    }
    else if (e == "check")
    {
        if (!n.stable)
            return false;
        auto ls = rd_lits(op["lits"]);
        bool r = n.sat.check(ls);
        n.stable_stack.resize(n.sat.decision_level());
        n.fresh_stack.resize(n.sat.decision_level());
        // a failed check may leave literals enqueued by the learnt clauses: the queue is empty (propagate ran) unless
        // the failure was a root-level one
        if (!r && n.sat.root_level() && n.sat.value(FALSE_lit) == False)
        { // nothing to do: root-level inconsistency cannot be told apart here; a propagate follows
        }
        emit("\"e\":\"check\",\"lits\":" + jlits(ls) + ",\"ret\":" + (r ? "1" : "0"));
    }
    else if (e == "th_conflict")
    { // an outside theory reports that the given literals (all false now) cannot all be false: a clause of the caller's,
      // handed over as a conflict (backtrack to the level of its latest literal, analyse, backjump, record)
        if (!n.stable)
            return false;
        auto ls = rd_lits(op["lits"]);
        if (ls.empty())
            return false;
        for (const auto &l : ls)
            if (n.sat.value(l) != False)
                return false;
        g_tr.hooks.push_back("{\"k\":\"clause\",\"lits\":" + jlits(ls) + ",\"ret\":1}"); // the caller's clause
        bool r = n.ext.conflict(ls);
        n.stable_stack.resize(n.sat.decision_level());
        n.fresh_stack.resize(n.sat.decision_level());
        n.stable = r;
        root_result(r);
        emit("\"e\":\"th_conflict\",\"lits\":" + jlits(ls) + ",\"ret\":" + (r ? "1" : "0"));
    }
    else if (e == "simplify_db")
    {
        if (!n.sat.root_level())
            return false;
        bool r = n.sat.simplify_db();
        n.stable = r;
        root_result(r);
        emit(std::string("\"e\":\"simplify_db\",\"ret\":") + (r ? "1" : "0"));
    }
    else if (e == "lra_new_var")
    {
        var v = n.lra.new_var();
        emit("\"e\":\"lra_new_var\",\"ret\":" + std::to_string(v));
    }
    else if (e == "lra_def")
    {
        if (!n.sat.root_level())
            return false;
        lin l = rd_lin(op["l"]);
        if (l.vars.empty())
            return false;
        var v = n.lra.new_var(l);
        emit("\"e\":\"lra_def\",\"l\":" + js(l) + ",\"ret\":" + std::to_string(v));
    }
    else if (e == "lra_set_lb" || e == "lra_set_ub")
    { // a bound set directly at root level, with the constant true literal as its reason (as the executor does for its tick);
      // only used by the sequential / parallel comparison: the property-level specification has no such call
        if (!n.sat.root_level() || !n.stable)
            return false;
        const var x = (var)op["x"].i();
        const inf_rational v(rational(op["v"][0].i(), op["v"][1].i()));
        const bool r = e == "lra_set_lb" ? n.lra.set_lb(x, v, TRUE_lit) : n.lra.set_ub(x, v, TRUE_lit);
        n.stable = false;
        root_result(r);
        emit("\"e\":\"" + e + "\",\"x\":" + std::to_string(x) + ",\"v\":[" + std::to_string(op["v"][0].i()) + "," + std::to_string(op["v"][1].i()) + "],\"ret\":" + (r ? "1" : "0"));
    }
    else if (e == "lra_rel")
    {
        if (!n.sat.root_level())
            return false;
        lin l = rd_lin(op["l"]), r = rd_lin(op["r"]);
        const lin l_meant = l, r_meant = r; // what is recorded: the expressions as the caller means them
        if (op.has("via"))
        { // the operands are built with the compound operators of lin, through a term that cancels: (l + c*z) - c*z and
          // r += c*z; r -= c*z (what the translation of 'x + y - x' does)
            const var z = (var)op["via"][0].i();
            const rational c(op["via"][1].i(), op["via"][2].i());
            l += lin(z, c);
            l -= lin(z, c);
            lin t(r);
            t -= lin(z, c);
            t += lin(z, c);
            r = t;
        }
        const std::string &rel = op["rel"].s();
        lit res = rel == "lt" ? n.lra.new_lt(l, r) : rel == "leq" ? n.lra.new_leq(l, r)
                                                 : rel == "eq"    ? n.lra.new_eq(l, r)
                                                 : rel == "geq"   ? n.lra.new_geq(l, r)
                                                                  : n.lra.new_gt(l, r);
        n.stable = false;
        emit("\"e\":\"lra_rel\",\"rel\":\"" + rel + "\",\"l\":" + js(l_meant) + ",\"r\":" + js(r_meant) + ",\"ret\":" + std::to_string(index(res)));
    }
    else if (e == "dl_new_var")
    {
        const bool real = op["real"].i();
        var v = real ? n.rdl.new_var() : n.idl.new_var();
        emit(std::string("\"e\":\"dl_new_var\",\"real\":") + (real ? "1" : "0") + ",\"ret\":" + std::to_string(v));
    }
    else if (e == "dl_dist")
    {
        if (!n.sat.root_level())
            return false;
        const bool real = op["real"].i();
        const var from = op["from"].i(), to = op["to"].i();
        const inf_rational d = rd_irat(op["d"]);
        lit res = real ? n.rdl.new_distance(from, to, d) : n.idl.new_distance(from, to, d.get_rational().numerator());
        n.stable = false;
        emit(std::string("\"e\":\"dl_dist\",\"real\":") + (real ? "1" : "0") + ",\"from\":" + std::to_string(from) + ",\"to\":" + std::to_string(to) + ",\"d\":" + js(d) + ",\"ret\":" + std::to_string(index(res)));
    }
    else if (e == "dl_rel")
    {
        if (!n.sat.root_level())
            return false;
        const bool real = op["real"].i();
        lin l = rd_lin(op["l"]), r = rd_lin(op["r"]);
        const std::string &rel = op["rel"].s();
        lit res;
        int exc = 0;
        try
        {
            if (real)
                res = rel == "lt" ? n.rdl.new_lt(l, r) : rel == "leq" ? n.rdl.new_leq(l, r)
                                                     : rel == "eq"    ? n.rdl.new_eq(l, r)
                                                     : rel == "geq"   ? n.rdl.new_geq(l, r)
                                                                      : n.rdl.new_gt(l, r);
            else
                res = rel == "lt" ? n.idl.new_lt(l, r) : rel == "leq" ? n.idl.new_leq(l, r)
                                                     : rel == "eq"    ? n.idl.new_eq(l, r)
                                                     : rel == "geq"   ? n.idl.new_geq(l, r)
                                                                      : n.idl.new_gt(l, r);
        }
        catch (const std::invalid_argument &)
        {
            exc = 1;
            res = FALSE_lit;
        }
        n.stable = false;
        emit(std::string("\"e\":\"dl_rel\",\"real\":") + (real ? "1" : "0") + ",\"rel\":\"" + rel + "\",\"l\":" + js(l) + ",\"r\":" + js(r) + ",\"exc\":" + std::to_string(exc) + ",\"ret\":" + std::to_string(index(res)));
    }
    else if (e == "dl_bounds" || e == "dl_distance" || e == "dl_equates")
    {
        const bool real = op["real"].i();
        lin l = rd_lin(op["l"]);
        lin r = op.has("r") ? rd_lin(op["r"]) : lin();
        std::string res;
        int exc = 0;
        try
        {
            if (e == "dl_bounds")
            {
                if (real)
                {
                    auto b = n.rdl.bounds(l);
                    res = "[" + jsb(b.first) + "," + jsb(b.second) + "]";
                }
                else
                {
                    auto b = n.idl.bounds(l);
                    res = "[" + jidl(b.first) + "," + jidl(b.second) + "]";
                }
            }
            else if (e == "dl_distance")
            {
                if (real)
                {
                    auto b = n.rdl.distance(l, r);
                    res = "[" + jsb(b.first) + "," + jsb(b.second) + "]";
                }
                else
                {
                    auto b = n.idl.distance(l, r);
                    res = "[" + jidl(b.first) + "," + jidl(b.second) + "]";
                }
            }
            else
                res = (real ? n.rdl.equates(l, r) : n.idl.equates(l, r)) ? "1" : "0";
        }
        catch (const std::invalid_argument &)
        {
            exc = 1;
            res = "0";
        }
        emit("\"e\":\"" + e + "\",\"real\":" + (real ? "1" : "0") + ",\"l\":" + js(l) + ",\"r\":" + js(r) + ",\"exc\":" + std::to_string(exc) + ",\"ret\":" + res);
    }
    else if (e == "ov_new_var")
    {
        if (!n.sat.root_level())
            return false;
        std::vector<var_value *> vals;
        std::vector<int> ids;
        for (size_t i = 0; i < op["vals"].size(); ++i)
        {
            ids.push_back((int)op["vals"][i].i());
            vals.push_back(n.values.at(ids.back()).get());
        }
        // "free": the variable is created without the built-in exactly-one constraint (as the planner creates its enums)
        const bool free_var = op.has("free") && op["free"].i() == 1;
        var v = free_var ? n.ov.new_var(vals, false) : n.ov.new_var(vals);
        if (free_var)
            n.ov_free.insert(v);
        n.ov_vars.push_back(v);
        n.ov_doms.push_back(ids);
        n.stable = false;
        std::string s = "[";
        for (size_t i = 0; i < ids.size(); ++i)
            s += (i ? "," : "") + std::to_string(ids[i]);
        // the literals returned by allows() for every value of the pool (FALSE for values outside the domain)
        std::string al = "[";
        for (size_t i = 0; i < n.values.size(); ++i)
            al += (i ? "," : "") + std::to_string(index(n.ov.allows(v, *n.values[i])));
        emit("\"e\":\"ov_new_var\",\"vals\":" + s + "],\"allows\":" + al + "],\"free\":" + (free_var ? "1" : "0") + ",\"ret\":" + std::to_string(v));
    }
    else if (e == "ov_derived")
    { // a variable whose values are controlled by the literals of another one (what a field access through an object
      // variable creates): value vals[i] is taken exactly when the base variable takes its i-th value. It needs no new
      // literal and no clause: it may be created at any decision level
        const var base = (var)op["base"].i();
        size_t bi = 0;
        while (bi < n.ov_vars.size() && n.ov_vars[bi] != base)
            ++bi;
        if (bi == n.ov_vars.size() || n.ov_doms[bi].size() != op["vals"].size())
            return false;
        std::vector<lit> lits;
        std::vector<var_value *> vals;
        std::vector<int> ids;
        for (size_t i = 0; i < op["vals"].size(); ++i)
        {
            lits.push_back(n.ov.allows(base, *n.values.at(n.ov_doms[bi][i])));
            ids.push_back((int)op["vals"][i].i());
            vals.push_back(n.values.at(ids.back()).get());
        }
        var v = n.ov.new_var(lits, vals);
        n.ov_vars.push_back(v);
        n.ov_doms.push_back(ids);
        n.stable = false;
        std::string sv = "[";
        for (size_t i = 0; i < ids.size(); ++i)
            sv += (i ? "," : "") + std::to_string(ids[i]);
        emit("\"e\":\"ov_derived\",\"base\":" + std::to_string(base) + ",\"dvals\":" + sv + "],\"ret\":" + std::to_string(v));
    }
    else if (e == "ov_new_eq")
    {
        if (!n.sat.root_level())
            return false;
        const var a = op["a"].i(), b = op["b"].i();
        lit res = n.ov.new_eq(a, b);
        n.stable = false;
        emit("\"e\":\"ov_new_eq\",\"a\":" + std::to_string(a) + ",\"b\":" + std::to_string(b) + ",\"ret\":" + std::to_string(index(res)));
    }
    else
        return false;
    return true;
}

static void begin_exec(const std::string &profile, size_t dl_size)
{
    g_lines.clear();
    g_wide = false;
    g_tr.hooks.clear();
    g_tr.n_sat = 0;
    g_tr.n_lra = 0;
    g_net.reset(); // the previous network is destroyed before the counters restart
    verif::current() = &g_tr;
    g_net.reset(new net(dl_size));
    g_tr.nt = g_net.get();
    g_lean = profile == "cache";
    g_lines.push_back("{\"e\":\"reset\",\"profile\":\"" + profile + "\",\"dlsize\":" + std::to_string(dl_size) + "}");
}
static void end_exec()
{
    ++n_exec;
    if (g_wide)
    {
        ++n_wide;
        g_lines.clear();
        return;
    }
    for (const auto &l : g_lines)
    {
        fprintf(g_out, "%s\n", l.c_str());
        ++n_lines;
    }
    g_lines.clear();
}

// ---- generator ---------------------------------------------------------------------------------------------------------
struct gen
{
    std::mt19937 rng;
    std::string profile;
    int n_cache = 0;
    std::vector<long> lits;              // positive literal indices usable in clauses and assumptions
    std::vector<var> lra_vars;           // variables usable in linear expressions (originals and derived)
    std::vector<var> idl_tps, rdl_tps;   // time points (origin excluded)
    int n_atoms = 0;
    int max_sat = 11, max_atoms = 6;

    int rnd(int k) { return (int)(rng() % (unsigned)k); }
    bool coin(int pct) { return rnd(100) < pct; }
    long any_lit()
    {
        long x = lits[rnd((int)lits.size())];
        return coin(50) ? x : (x ^ 1);
    }
    void add_lit(long x)
    {
        if ((x >> 1) == 0)
            return;
        long p = x | 1;
        if (std::find(lits.begin(), lits.end(), p) == lits.end())
            lits.push_back(p);
    }
    bool room() const { return g_tr.n_sat < (size_t)max_sat; }

    static std::string jl(const std::vector<long> &ls)
    {
        std::string s = "[";
        for (size_t i = 0; i < ls.size(); ++i)
            s += (i ? "," : "") + std::to_string(ls[i]);
        return s + "]";
    }
    bool run(const std::string &json)
    {
        vj::val op = vj::parse(json);
        return exec_op(op);
    }
    long last_ret()
    { // the "ret" field of the last emitted line
        vj::val v = vj::parse(g_lines.back());
        return v["ret"].k == vj::val::NUM ? v["ret"].i() : 0;
    }

    std::string rnd_rat(bool halves)
    {
        static const int ns[] = {-3, -2, -1, 0, 1, 2, 3};
        int n = ns[rnd(7)];
        if (halves && coin(30))
            return "[" + std::to_string(2 * n + 1) + ",2]";
        return "[" + std::to_string(n) + ",1]";
    }
    std::string rnd_coef()
    {
        static const char *cs[] = {"1,1", "-1,1", "2,1", "-2,1", "1,2", "-3,2", "1,1", "-1,1"};
        return cs[rnd(8)];
    }
    std::string lra_lin(int maxvars)
    {
        std::string s = "{\"v\":[";
        std::vector<var> vs = lra_vars;
        std::shuffle(vs.begin(), vs.end(), rng);
        int k = vs.empty() ? 0 : rnd(std::min<int>(maxvars, (int)vs.size()) + 1);
        std::sort(vs.begin(), vs.begin() + k);
        for (int i = 0; i < k; ++i)
            s += (i ? "," : "") + ("[" + std::to_string(vs[i]) + "," + rnd_coef() + "]");
        return s + "],\"k\":" + rnd_rat(true) + "}";
    }
    // difference-logic expression pairs (l, r) with l - r = c * (x - y) + k or c * x + k
    void dl_pair(bool real, std::string &l, std::string &r)
    {
        const auto &tps = real ? rdl_tps : idl_tps;
        static const int cs[] = {1, -1, 2, -2, 1, -1};
        int c = cs[rnd(6)];
        auto konst = [&](int mult)
        {
            int n = rnd(7) - 3;
            if (real && coin(30))
                return "[" + std::to_string((2 * n + 1) * mult) + ",2]";
            return "[" + std::to_string(n * mult) + ",1]";
        };
        const int mult = real ? 1 : std::abs(c); // integer theory: constants divisible by the coefficient
        var x = tps[rnd((int)tps.size())];
        if (tps.size() >= 2 && coin(65))
        {
            var y = x;
            while (y == x)
                y = tps[rnd((int)tps.size())];
            switch (rnd(3))
            {
            case 0: // c*x + k1  vs  c*y + k2
                l = "{\"v\":[[" + std::to_string(x) + "," + std::to_string(c) + ",1]],\"k\":" + konst(mult) + "}";
                r = "{\"v\":[[" + std::to_string(y) + "," + std::to_string(c) + ",1]],\"k\":" + konst(mult) + "}";
                break;
            case 1: // c*x - c*y + k  vs  k2
            {
                var a = std::min(x, y), b = std::max(x, y);
                int ca = a == x ? c : -c;
                l = "{\"v\":[[" + std::to_string(a) + "," + std::to_string(ca) + ",1],[" + std::to_string(b) + "," + std::to_string(-ca) + ",1]],\"k\":" + konst(mult) + "}";
                r = "{\"v\":[],\"k\":" + konst(mult) + "}";
                break;
            }
            default: // k1  vs  c*x - c*y + k2
            {
                var a = std::min(x, y), b = std::max(x, y);
                int ca = a == x ? c : -c;
                r = "{\"v\":[[" + std::to_string(a) + "," + std::to_string(ca) + ",1],[" + std::to_string(b) + "," + std::to_string(-ca) + ",1]],\"k\":" + konst(mult) + "}";
                l = "{\"v\":[],\"k\":" + konst(mult) + "}";
            }
            }
        }
        else if (coin(70))
        { // c*x + k1  vs  k2
            l = "{\"v\":[[" + std::to_string(x) + "," + std::to_string(c) + ",1]],\"k\":" + konst(mult) + "}";
            r = "{\"v\":[],\"k\":" + konst(mult) + "}";
            if (coin(50))
                std::swap(l, r);
        }
        else
        { // constants
            l = "{\"v\":[],\"k\":" + konst(1) + "}";
            r = "{\"v\":[],\"k\":" + konst(1) + "}";
        }
    }
    std::string dl_expr(bool real)
    { // c*x + k or c*(x - y) + k, for the query functions
        const auto &tps = real ? rdl_tps : idl_tps;
        static const int cs[] = {1, -1, 2, -2, 1, 3};
        int c = cs[rnd(6)];
        int n = rnd(7) - 3;
        std::string k = (real && coin(30)) ? "[" + std::to_string(2 * n + 1) + ",2]" : "[" + std::to_string(n) + ",1]";
        var x = tps[rnd((int)tps.size())];
        if (tps.size() >= 2 && coin(55))
        {
            var y = x;
            while (y == x)
                y = tps[rnd((int)tps.size())];
            var a = std::min(x, y), b = std::max(x, y);
            int ca = a == x ? c : -c;
            return "{\"v\":[[" + std::to_string(a) + "," + std::to_string(ca) + ",1],[" + std::to_string(b) + "," + std::to_string(-ca) + ",1]],\"k\":" + k + "}";
        }
        if (coin(85))
            return "{\"v\":[[" + std::to_string(x) + "," + std::to_string(c) + ",1]],\"k\":" + k + "}";
        return "{\"v\":[],\"k\":" + k + "}";
    }
    static const char *rel(int i)
    {
        static const char *rs[] = {"lt", "leq", "eq", "geq", "gt"};
        return rs[i];
    }

    bool use(const char *th) const { return profile == th || profile == "mix" || (profile == "lrabig" && !strcmp(th, "lra")) || (profile == "dlrel" && (!strcmp(th, "idl") || !strcmp(th, "rdl"))); }

    // one root-level creation step
    void create()
    {
        net &n = *g_net;
        int what = rnd(100);
        if (use("lra") && what < 40 && !lra_vars.empty() && n_atoms < max_atoms && room())
        {
            if (coin(12) && lra_vars.size() < 5)
            {
                std::string l = lra_lin(2);
                if (l.find("\"v\":[]") == std::string::npos && run("{\"e\":\"lra_def\",\"l\":" + l + "}"))
                {
                    var v = (var)last_ret();
                    if (std::find(lra_vars.begin(), lra_vars.end(), v) == lra_vars.end())
                        lra_vars.push_back(v);
                }
                return;
            }
            std::string via;
            if (coin(25)) // a cancelling term, built through the compound operators (preferably the most recent variable)
                via = ",\"via\":[" + std::to_string(coin(60) ? lra_vars.back() : lra_vars[rnd((int)lra_vars.size())]) + "," + rnd_coef() + "]";
            run(std::string("{\"e\":\"lra_rel\",\"rel\":\"") + rel(rnd(5)) + "\",\"l\":" + lra_lin(3) + ",\"r\":" + lra_lin(coin(50) ? 0 : 2) + via + "}");
            ++n_atoms;
            add_lit(last_ret());
            return;
        }
        if (use("idl") && what < 40 && !idl_tps.empty() && n_atoms < max_atoms && room())
        {
            dl_create(false);
            return;
        }
        if (use("rdl") && what < 40 && !rdl_tps.empty() && n_atoms < max_atoms && room())
        {
            dl_create(true);
            return;
        }
        if (use("ov") && what < 40 && n.ov_vars.size() >= 2 && room())
        {
            int a = rnd((int)n.ov_vars.size()), b = rnd((int)n.ov_vars.size());
            if (n.ov_free.count(n.ov_vars[a]) || n.ov_free.count(n.ov_vars[b]))
                return; // equality is defined between variables that take exactly one value
            run("{\"e\":\"ov_new_eq\",\"a\":" + std::to_string(n.ov_vars[a]) + ",\"b\":" + std::to_string(n.ov_vars[b]) + "}");
            add_lit(last_ret());
            return;
        }
        if (what < 55 || profile == "reify")
        { // reified constructors
            if (lits.empty() || !room())
                return;
            static const char *ks[] = {"new_eq", "new_conj", "new_disj", "new_amo", "new_exo"};
            int k = rnd(5);
            std::vector<long> args;
            int len = k == 0 ? 2 : (profile == "reify" ? rnd(coin(15) ? 8 : 5) : 1 + rnd(3));
            for (int i = 0; i < len; ++i)
                args.push_back(coin(6) ? rnd(2) : any_lit()); // occasionally the constants TRUE (0) / FALSE (1)
            if (len > 1 && coin(15))
                args[rnd(len)] = args[rnd(len)]; // a duplicate
            if (len > 1 && coin(10))
                args[rnd(len)] = args[rnd(len)] ^ 1; // a complementary pair
            run(std::string("{\"e\":\"") + ks[k] + "\",\"args\":" + jl(args) + "}");
            add_lit(last_ret());
            if (coin(30) && room()) // the same request again (the expression cache must be hit), or another constructor on the same arguments
            {
                std::shuffle(args.begin(), args.end(), rng);
                const int k2 = (k == 0 || coin(60)) ? k : 1 + rnd(4);
                run(std::string("{\"e\":\"") + ks[k2] + "\",\"args\":" + jl(args) + "}");
                add_lit(last_ret());
            }
            return;
        }
        // a clause
        if (lits.empty())
            return;
        std::vector<long> c;
        int len = 1 + rnd(3);
        if (coin(10))
            len = 1;
        for (int i = 0; i < len; ++i)
            c.push_back(any_lit());
        run("{\"e\":\"new_clause\",\"lits\":" + jl(c) + "}");
    }
    void dl_create(bool real)
    {
        const auto &tps = real ? rdl_tps : idl_tps;
        const std::string rs = real ? "1" : "0";
        if (coin(55))
        {
            std::vector<var> pts = tps;
            pts.push_back(0);
            var f = pts[rnd((int)pts.size())], t = f;
            while (t == f)
                t = pts[rnd((int)pts.size())];
            int d = rnd(9) - 4;
            std::string ds = (real && coin(35)) ? "[[" + std::to_string(2 * d + 1) + ",2],[" + std::to_string(coin(50) ? 0 : (coin(50) ? 1 : -1)) + ",1]]" : "[[" + std::to_string(d) + ",1],[0,1]]";
            run("{\"e\":\"dl_dist\",\"real\":" + rs + ",\"from\":" + std::to_string(f) + ",\"to\":" + std::to_string(t) + ",\"d\":" + ds + "}");
        }
        else
        {
            std::string l, r;
            dl_pair(real, l, r);
            run(std::string("{\"e\":\"dl_rel\",\"real\":") + rs + ",\"rel\":\"" + rel(rnd(5)) + "\",\"l\":" + l + ",\"r\":" + r + "}");
        }
        ++n_atoms;
        add_lit(last_ret());
    }
    void dl_query(bool real)
    {
        const std::string rs = real ? "1" : "0";
        switch (rnd(3))
        {
        case 0:
            run("{\"e\":\"dl_bounds\",\"real\":" + rs + ",\"l\":" + dl_expr(real) + "}");
            break;
        case 1:
        {
            std::string l, r;
            dl_pair(real, l, r);
            run("{\"e\":\"dl_distance\",\"real\":" + rs + ",\"l\":" + l + ",\"r\":" + r + "}");
            break;
        }
        default:
        {
            std::string l, r;
            dl_pair(real, l, r);
            // equates accepts at most one variable on each side
            if (l.find("],[") != std::string::npos || r.find("],[") != std::string::npos)
                return;
            run("{\"e\":\"dl_equates\",\"real\":" + rs + ",\"l\":" + l + ",\"r\":" + r + "}");
        }
        }
    }

    // profile "cache": the expression cache of the reified constructors. Plain unconstrained variables only; every pair and
    // every triple of the first literals is requested for every constructor (a literal shared by two different formulas
    // is what the trace specification looks for), then seeded requests with negated / repeated arguments and repeats
    void cache_execution(int which)
    {
        begin_exec(profile, 16);
        const int nv = 22;
        for (int i = 0; i < nv; ++i)
            run("{\"e\":\"new_var\"}");
        static const char *ks[] = {"new_conj", "new_disj", "new_exo", "new_amo", "new_eq"};
        const char *k = ks[which % 4];
        auto L = [](int v, bool pos) { return (long)(2 * v + (pos ? 1 : 0)); };
        const bool pos = (which / 4) % 2 == 0;
        for (int a = 1; a <= nv; ++a)
            for (int b = a + 1; b <= nv; ++b)
            {
                run(std::string("{\"e\":\"") + k + "\",\"args\":" + jl({L(a, pos), L(b, pos)}) + "}");
                if ((a + b) % 7 == 0)
                    run(std::string("{\"e\":\"new_eq\",\"args\":") + jl({L(a, pos), L(b, !pos)}) + "}");
            }
        for (int a = 1; a <= 19; ++a)
            for (int b = a + 1; b <= 20; ++b)
                for (int c = b + 1; c <= nv; ++c)
                    if ((a + 2 * b + 3 * c + which) % 3 == 0 || b - a == 1)
                        run(std::string("{\"e\":\"") + k + "\",\"args\":" + jl({L(a, pos), L(b, pos), L(c, pos)}) + "}");
        for (int i = 0; i < 300; ++i)
        {
            std::vector<long> args;
            for (int j = 0, n = 2 + rnd(3); j < n; ++j)
                args.push_back(L(1 + rnd(nv), coin(50)));
            if (coin(20))
                args[0] = args[1];
            const int kk = rnd(5);
            run(std::string("{\"e\":\"") + ks[kk] + "\",\"args\":" + jl(std::vector<long>(args.begin(), args.begin() + ((kk == 4 || coin(50)) ? 2 : args.size()))) + "}");
        }
        end_exec();
    }

    void execution(int max_ops)
    {
        if (profile == "cache")
        {
            cache_execution(n_cache++);
            return;
        }
        lits.clear();
        lra_vars.clear();
        idl_tps.clear();
        rdl_tps.clear();
        n_atoms = 0;
        const size_t dl_size = coin(70) ? 16 : 2; // a small initial matrix exercises its growth
        if (profile == "lrabig")
        { // larger linear systems (several rows per pivot): used for the sequential / parallel comparison only
            max_sat = 40;
            max_atoms = 16;
        }
        begin_exec(profile, dl_size);
        net &n = *g_net;
        // --- setup ---
        int nb = profile == "sat" || profile == "reify" ? 3 + rnd(3) : 1 + rnd(3);
        for (int i = 0; i < nb; ++i)
        {
            run("{\"e\":\"new_var\"}");
            add_lit(last_ret() * 2 + 1);
        }
        if (use("lra"))
            for (int i = 0, k = (profile == "lrabig" ? 4 + rnd(3) : 1 + rnd(3)); i < k; ++i)
            {
                run("{\"e\":\"lra_new_var\"}");
                lra_vars.push_back((var)last_ret());
            }
        if (use("idl"))
            for (int i = 0, k = 1 + rnd(3); i < k; ++i)
            {
                run("{\"e\":\"dl_new_var\",\"real\":0}");
                idl_tps.push_back((var)last_ret());
            }
        if (use("rdl"))
            for (int i = 0, k = 1 + rnd(3); i < k; ++i)
            {
                run("{\"e\":\"dl_new_var\",\"real\":1}");
                rdl_tps.push_back((var)last_ret());
            }
        if (use("ov"))
            for (int i = 0, k = 2 + rnd(2); i < k && g_tr.n_sat + 3 < (size_t)max_sat; ++i)
            {
                std::vector<long> pool = {0, 1, 2, 3};
                std::shuffle(pool.begin(), pool.end(), rng);
                int sz = 1 + rnd(3);
                std::vector<long> vals(pool.begin(), pool.begin() + sz);
                std::sort(vals.begin(), vals.end());
                run("{\"e\":\"ov_new_var\",\"vals\":" + jl(vals) + (coin(30) ? ",\"free\":1}" : "}"));
                vj::val ln = vj::parse(g_lines.back());
                for (size_t j = 0; j < ln["allows"].size(); ++j)
                    add_lit(ln["allows"][j].i());
            }
        if (use("ov") && coin(45))
        { // two variables derived from the same base variable (they share its literals): fields reached through it
            std::vector<size_t> cands;
            for (size_t i = 0; i < n.ov_vars.size(); ++i)
                if (!n.ov_free.count(n.ov_vars[i]) && n.ov_doms[i].size() >= 2)
                    cands.push_back(i);
            if (!cands.empty())
            {
                const size_t bi = cands[rnd((int)cands.size())];
                for (int k = 0; k < 2; ++k)
                {
                    std::vector<long> pool = {0, 1, 2, 3};
                    std::shuffle(pool.begin(), pool.end(), rng);
                    std::vector<long> vals(pool.begin(), pool.begin() + n.ov_doms[bi].size());
                    run("{\"e\":\"ov_derived\",\"base\":" + std::to_string(n.ov_vars[bi]) + ",\"vals\":" + jl(vals) + "}");
                }
                if (n.ov_vars.size() >= 2)
                    run("{\"e\":\"ov_new_eq\",\"a\":" + std::to_string(n.ov_vars[n.ov_vars.size() - 2]) + ",\"b\":" + std::to_string(n.ov_vars.back()) + "}");
            }
        }
        if (profile == "lrabig" && lra_vars.size() >= 2)
        { // derived variables whose defining rows carry a constant term (as the executor creates them): they are pivoted later
            const size_t nplain = lra_vars.size();
            for (int i = 0, k = 2 + rnd(2); i < k && !n.dead; ++i)
            {
                std::vector<var> vs(lra_vars.begin(), lra_vars.begin() + nplain);
                std::shuffle(vs.begin(), vs.end(), rng);
                const int nv = 2 + rnd(std::min<int>(2, (int)nplain - 1));
                std::sort(vs.begin(), vs.begin() + nv);
                std::string l = "{\"v\":[";
                for (int j = 0; j < nv; ++j)
                    l += (j ? "," : "") + ("[" + std::to_string(vs[j]) + "," + rnd_coef() + "]");
                l += "],\"k\":[" + std::to_string(1 + rnd(5)) + ",1]}";
                if (run("{\"e\":\"lra_def\",\"l\":" + l + "}"))
                {
                    var v = (var)last_ret();
                    if (std::find(lra_vars.begin(), lra_vars.end(), v) == lra_vars.end())
                        lra_vars.push_back(v);
                }
            }
        }
        for (int i = 0, k = (profile == "lrabig" ? 12 + rnd(8) : 3 + rnd(6)); i < k && !n.dead; ++i)
            create();
        if (profile == "dlrel" && !n.dead)
        { // relations and queries requested on a network whose root level already carries propagated constraints between
          // the same time points (one theory per execution)
            const bool real = coin(50);
            const auto &tps = real ? rdl_tps : idl_tps;
            const std::string rs = real ? "1" : "0";
            if (tps.size() >= 2)
            {
                auto two = [&](var a, var b, int ca, int k0)
                { return "{\"v\":[[" + std::to_string(std::min(a, b)) + "," + std::to_string(a < b ? ca : -ca) + ",1],[" + std::to_string(std::max(a, b)) + "," + std::to_string(a < b ? -ca : ca) + ",1]],\"k\":[" + std::to_string(k0) + ",1]}"; };
                auto konst = [&](int k0) { return "{\"v\":[],\"k\":[" + std::to_string(k0) + ",1]}"; };
                std::vector<long> mine;
                for (int i = 0, k = 1 + rnd(2); i < k; ++i)
                { // a - b rel c, asserted (or its negation) at root level
                    var a = tps[rnd((int)tps.size())], b = a;
                    while (b == a)
                        b = tps[rnd((int)tps.size())];
                    run("{\"e\":\"dl_rel\",\"real\":" + rs + ",\"rel\":\"" + rel(coin(50) ? 1 : 3) + "\",\"l\":" + two(a, b, 1, 0) + ",\"r\":" + konst(rnd(9) - 4) + "}");
                    mine.push_back(last_ret());
                }
                for (long m : mine)
                    if (!n.dead && m > 1)
                        run("{\"e\":\"new_clause\",\"lits\":[" + std::to_string(coin(75) ? m : (m ^ 1)) + "]}");
                if (!n.dead)
                    run("{\"e\":\"propagate\"}");
                for (int i = 0, k = 8 + rnd(6); i < k && !n.dead && n.sat.root_level(); ++i)
                {
                    var a = tps[rnd((int)tps.size())], b = a;
                    while (b == a)
                        b = tps[rnd((int)tps.size())];
                    if (coin(75))
                    {
                        const int form = rnd(3), k1 = rnd(13) - 6, k2 = rnd(5) - 2;
                        std::string l, r;
                        if (form == 0)
                            l = two(a, b, 1, k2), r = konst(k1);
                        else if (form == 1)
                            l = konst(k1), r = two(a, b, 1, k2);
                        else
                            l = "{\"v\":[[" + std::to_string(a) + ",1,1]],\"k\":[" + std::to_string(k2) + ",1]}", r = "{\"v\":[[" + std::to_string(b) + ",1,1]],\"k\":[" + std::to_string(k1) + ",1]}";
                        run("{\"e\":\"dl_rel\",\"real\":" + rs + ",\"rel\":\"" + rel(coin(45) ? 2 : rnd(5)) + "\",\"l\":" + l + ",\"r\":" + r + "}");
                        add_lit(last_ret());
                    }
                    else
                        dl_query(real);
                }
            }
        }
        // --- search ---
        int ops = 0;
        while (!n.dead && ops < max_ops)
        {
            ++ops;
            if (!n.stable)
            {
                if (!n.sat.root_level() && n.sat.value(n.sat.get_decisions().back()) != True && coin(100))
                { // a failed assume left its decision standing: undo it
                    run("{\"e\":\"pop\"}");
                    continue;
                }
                run("{\"e\":\"propagate\"}");
                continue;
            }
            int w = rnd(100);
            const bool root = n.sat.root_level();
            if (profile == "lrabig" && root && n.stable && coin(35))
            { // relations created after the tableau was pivoted mention basic variables: their rows are substituted
                if (coin(30) && !lra_vars.empty())
                    run(std::string("{\"e\":\"") + (coin(50) ? "lra_set_lb" : "lra_set_ub") + "\",\"x\":" + std::to_string(lra_vars[rnd((int)lra_vars.size())]) + ",\"v\":[" + std::to_string(rnd(13) - 2) + ",1]}");
                else
                    create();
                continue;
            }
            if (use("ov") && !root && coin(6))
            { // a field reached through an object variable while some of its values are excluded by the standing decisions
                std::vector<size_t> cands;
                for (size_t i = 0; i < n.ov_vars.size(); ++i)
                    if (!n.ov_free.count(n.ov_vars[i]) && n.ov_doms[i].size() >= 2)
                        cands.push_back(i);
                if (!cands.empty() && n.ov_vars.size() < 6)
                {
                    const size_t bi = cands[rnd((int)cands.size())];
                    std::vector<long> pool = {0, 1, 2, 3};
                    std::shuffle(pool.begin(), pool.end(), rng);
                    std::vector<long> vals(pool.begin(), pool.begin() + n.ov_doms[bi].size());
                    run("{\"e\":\"ov_derived\",\"base\":" + std::to_string(n.ov_vars[bi]) + ",\"vals\":" + jl(vals) + "}");
                    continue;
                }
            }
            if ((profile == "sat" || profile == "mix" || profile == "reify") && !root && coin(5) && lits.size() >= 2)
            { // a conflict reported from outside: two or three literals of the pool that are false now
                std::vector<long> fl;
                std::set<long> vs;
                for (int t = 0; t < 12 && fl.size() < (size_t)(2 + rnd(2)); ++t)
                {
                    long p = any_lit();
                    const lit pl = rd_lit(vj::parse(std::to_string(p)));
                    if (variable(pl) == 0 || n.sat.value(pl) == Undefined || vs.count((long)variable(pl)))
                        continue;
                    vs.insert((long)variable(pl));
                    fl.push_back(n.sat.value(pl) == False ? p : (p ^ 1));
                }
                if (fl.size() >= 2)
                {
                    run("{\"e\":\"th_conflict\",\"lits\":" + jl(fl) + "}");
                    continue;
                }
            }
            if (w < 45 && !lits.empty())
            {
                long p = any_lit();
                if (coin(85))
                    for (int t = 0; t < 6 && n.sat.value(rd_lit(vj::parse(std::to_string(p)))) != Undefined; ++t)
                        p = any_lit();
                run("{\"e\":\"assume\",\"p\":" + std::to_string(p) + "}");
            }
            else if (w < 63 && !root)
                run("{\"e\":\"pop\"}");
            else if (w < 72 && !root)
                run("{\"e\":\"next\"}");
            else if (w < 79 && !lits.empty())
            {
                std::vector<long> ls;
                for (int i = 0, k = 1 + rnd(3); i < k; ++i)
                    ls.push_back(any_lit());
                run("{\"e\":\"check\",\"lits\":" + jl(ls) + "}");
            }
            else if (w < 82)
                run("{\"e\":\"propagate\"}");
            else if (w < 85 && root)
                run("{\"e\":\"simplify_db\"}");
            else if (w < 93 && root)
                create();
            else if (use("idl") && !idl_tps.empty() && coin(50))
                dl_query(false);
            else if (use("rdl") && !rdl_tps.empty())
                dl_query(true);
            else if (!root)
                run("{\"e\":\"pop\"}");
        }
        end_exec();
    }
};

int main(int argc, char **argv)
{
    if (argc < 4)
    {
        fprintf(stderr, "usage: net_driver gen <profile> <seed> <executions> <out> [max_ops] | replay <in> <out>\n");
        return 2;
    }
    std::set_terminate(on_terminate);
    signal(SIGABRT, flush_partial_and_exit);
    signal(SIGSEGV, flush_partial_and_exit);
    signal(SIGFPE, flush_partial_and_exit);
    if (!strcmp(argv[1], "gen"))
    {
        gen g;
        g.profile = argv[2];
        g.rng.seed((unsigned)atol(argv[3]));
        const int n = atoi(argv[4]);
        g_out = fopen(argv[5], "w");
        const int max_ops = argc > 6 ? atoi(argv[6]) : 40;
        for (int i = 0; i < n; ++i)
            g.execution(max_ops);
    }
    else
    {
        std::ifstream in(argv[2]);
        g_out = fopen(argv[3], "w");
        std::string ln;
        bool open = false;
        while (std::getline(in, ln))
        {
            if (ln.empty())
                continue;
            vj::val op = vj::parse(ln);
            if (op["e"].s() == "reset")
            {
                if (open)
                    end_exec();
                begin_exec(op.has("profile") ? op["profile"].s() : "replay", op.has("dlsize") ? (size_t)op["dlsize"].i() : 16);
                open = true;
                continue;
            }
            if (op["e"].s() == "abort")
                continue;
            if (!open)
            {
                begin_exec("replay", 16);
                open = true;
            }
            if (!g_net->dead)
                exec_op(op);
        }
        if (open)
            end_exec();
    }
    fclose(g_out);
    printf("executions=%ld wide_dropped=%ld lines=%ld\n", n_exec, n_wide, n_lines);
    return 0;
}
