// Drives smt::thread_pool the way lra_theory::pivot does (enqueue the tasks of one round, then join) and records what
// the caller and the tasks can observe, so that the executions can be validated against spec/ThreadPool.tla (PoolTrace):
//   enq(t)   the main thread is about to hand task t to the pool
//   start(t) / end(t)   first / last statement of the task (run by a worker)
//   join / joined       the main thread calls join() / join() has returned
// Events are ordered by one sequentially consistent counter. The first <detail> rounds of every configuration are recorded
// event by event; the remaining rounds are checked in place (every task of the round ran exactly once before join()
// returned) and summarised in one "bulk" event. A watchdog turns a join() that does not return within <patience> seconds
// into a "hang" event and ends the process.
//   pool_driver <out.ndjson> <rounds> <detail> [patience-seconds]
#include "thread_pool.h"
#include <atomic>
#include <chrono>
#include <cstdio>
#include <cstdlib>
#include <mutex>
#include <string>
#include <thread>
#include <unistd.h>
#include <vector>

static std::atomic<unsigned long> g_seq{0};
static std::mutex g_log_mtx;
static std::vector<std::string> g_log;
static std::atomic<long> g_progress{0}; // rounds completed (all configurations)
static std::atomic<int> g_in_join{0};
static FILE *g_out = nullptr;

static void ev(const char *e, int size, long round, int task)
{
    const unsigned long s = ++g_seq;
    char buf[160];
    snprintf(buf, sizeof buf, "{\"e\":\"%s\",\"seq\":%lu,\"size\":%d,\"round\":%ld,\"t\":%d}", e, s, size, round, task);
    std::lock_guard<std::mutex> lk(g_log_mtx);
    g_log.emplace_back(buf);
}

static void flush_log()
{
    std::lock_guard<std::mutex> lk(g_log_mtx);
    for (const auto &l : g_log)
        fprintf(g_out, "%s\n", l.c_str());
    g_log.clear();
    fflush(g_out);
}

int main(int argc, char **argv)
{
    if (argc < 4)
        return 2;
    g_out = fopen(argv[1], "w");
    const long rounds = atol(argv[2]), detail = atol(argv[3]);
    const int patience = argc > 4 ? atoi(argv[4]) : 20;
    std::atomic<bool> finished{false};
    std::thread watchdog([&] {
        long last = -1;
        int still = 0;
        while (!finished)
        {
            std::this_thread::sleep_for(std::chrono::seconds(1));
            const long p = g_progress;
            if (p == last && g_in_join)
            {
                if (++still >= patience)
                { // join() has not returned for <patience> seconds although every task is trivial
                    flush_log();
                    fprintf(g_out, "{\"e\":\"hang\",\"round\":%ld,\"in_join\":1}\n", p);
                    fflush(g_out);
                    _exit(3);
                }
            }
            else
                still = 0;
            last = p;
        }
    });
    const int sizes[] = {1, 2, 4, 8};
    const int ntasks[] = {1, 2, 3, 8};
    for (int size : sizes)
        for (int k : ntasks)
        {
            { // the configuration: a reset line starts an execution
                std::lock_guard<std::mutex> lk(g_log_mtx);
                char buf[120];
                snprintf(buf, sizeof buf, "{\"e\":\"reset\",\"size\":%d,\"tasks\":%d}", size, k);
                g_log.emplace_back(buf);
            }
            smt::thread_pool pool(size);
            std::vector<std::atomic<int>> ran(k);
            long bad = 0;
            for (long r = 0; r < rounds; ++r)
            {
                const bool det = r < detail;
                for (int t = 0; t < k; ++t)
                    ran[t] = 0;
                for (int t = 0; t < k; ++t)
                {
                    if (det)
                        ev("enq", size, r, t);
                    pool.enqueue([&, t, det, size, r] {
                        if (det)
                            ev("start", size, r, t);
                        ran[t]++;
                        if (det)
                            ev("end", size, r, t);
                    });
                }
                if (det)
                    ev("join", size, r, -1);
                g_in_join = 1;
                pool.join();
                g_in_join = 0;
                if (det)
                    ev("joined", size, r, -1);
                else
                    for (int t = 0; t < k; ++t)
                        if (ran[t] != 1)
                            ++bad; // join() returned although a task of the round has not run (or ran twice)
                ++g_progress;
                if (det && r == detail - 1)
                    flush_log();
            }
            flush_log();
            fprintf(g_out, "{\"e\":\"bulk\",\"size\":%d,\"tasks\":%d,\"rounds\":%ld,\"bad\":%ld}\n", size, k, rounds > detail ? rounds - detail : 0, bad);
            fflush(g_out);
        }
    finished = true;
    watchdog.join();
    fclose(g_out);
    return 0;
}
