// arith_driver: drives smt::rational, smt::inf_rational and smt::lin through a register machine and logs
// every operator application with its result as one NDJSON line (validated by spec/ArithTrace.tla).
//
//   arith_driver grid <G> <out.ndjson>            systematic operand grid with numerators/denominators in -G..G
//   arith_driver random <seed> <n> <out.ndjson>   n executions of random operation sequences
//
// Undefined operations (inf + -inf, 0 * inf, division by zero, NaN construction, infinite scalars on lin)
// are the documented assertions of the library and are never issued.
#include "rational.h"
#include "inf_rational.h"
#include "lin.h"
#include <cstdio>
#include <cstdlib>
#include <cstring>
#include <random>
#include <string>
#include <vector>
#include <set>
#include <csignal>
#include <unistd.h>

using namespace smt;

static FILE *out = nullptr;
static long n_lines = 0;
static const I BOUND = 181; // operands are kept below this magnitude so that TLC's 32-bit integers never overflow

static rational Q[4];
static inf_rational E[4];
static lin L[3];

static std::string js(const rational &q) { return "[" + std::to_string(q.numerator()) + "," + std::to_string(q.denominator()) + "]"; }
static std::string js(const inf_rational &e) { return "[" + js(e.get_rational()) + "," + js(e.get_infinitesimal()) + "]"; }
static std::string js(const lin &l)
{
    std::string s = "{\"v\":[";
    bool first = true;
    for (const auto &[v, c] : l.vars)
    {
        if (!first)
            s += ",";
        first = false;
        s += "[" + std::to_string(v) + "," + std::to_string(c.numerator()) + "," + std::to_string(c.denominator()) + "]";
    }
    return s + "],\"k\":" + js(l.known_term) + "}";
}
static void line(const std::string &s)
{
    fputs(s.c_str(), out);
    fputc('\n', out);
    ++n_lines;
}
static void on_abort(int sig)
{
    if (out)
    {
        fprintf(out, "{\"e\":\"abort\",\"sig\":%d}\n", sig);
        fflush(out);
    }
    _exit(3);
}

static bool wide(const rational &q) { return std::labs(q.numerator()) > BOUND || std::labs(q.denominator()) > BOUND; }
static bool wide(const inf_rational &e) { return wide(e.get_rational()) || wide(e.get_infinitesimal()); }
static bool wide(const lin &l)
{
    if (wide(l.known_term))
        return true;
    for (const auto &[v, c] : l.vars)
        if (wide(c))
            return true;
    return false;
}

// ---- definedness (mirrors the assertions of the library) ---------------------------------------------------
static bool add_def(const rational &a, const rational &b) { return !(is_infinite(a) && is_infinite(b) && a != b); }
static bool mul_def(const rational &a, const rational &b) { return !((is_zero(a) && is_infinite(b)) || (is_infinite(a) && is_zero(b))); }
static rational inv(const rational &q) { return q.numerator() >= 0 ? rational(q.denominator(), q.numerator()) : rational(-q.denominator(), -q.numerator()); }
static bool div_def(const rational &a, const rational &b) { return !is_zero(b) && mul_def(a, is_infinite(b) ? rational::ZERO : inv(b)); }
static bool q_def(int op, const rational &a, const rational &b)
{
    switch (op)
    {
    case 0:
        return add_def(a, b);
    case 1:
        return add_def(a, -b);
    case 2:
        return mul_def(a, b);
    default:
        return div_def(a, b);
    }
}
static const char *OPS[] = {"add", "sub", "mul", "div"};
static const char *CMPS[] = {"lt", "le", "eq", "ge", "gt", "ne"};

// ---- rational events ------------------------------------------------------------------------------------------
static void qmk(int dst, I n, I d)
{
    Q[dst] = rational(n, d);
    line("{\"e\":\"qmk\",\"dst\":" + std::to_string(dst) + ",\"n\":" + std::to_string(n) + ",\"d\":" + std::to_string(d) + ",\"res\":" + js(Q[dst]) + "}");
}
static void qmk1(int dst, I n)
{
    Q[dst] = rational(n);
    line("{\"e\":\"qmk\",\"dst\":" + std::to_string(dst) + ",\"n\":" + std::to_string(n) + ",\"d\":1,\"res\":" + js(Q[dst]) + "}");
}
static void qfix(int r, std::mt19937 &rng)
{
    if (wide(Q[r]))
        qmk(r, (I)(rng() % 13) - 6, (I)(rng() % 6) + 1);
}
// forms: 0 bin, 1 asg, 2 binI, 3 asgI, 4 Ibin
static bool qop(int op, int form, int dst, int a, int b, I k)
{
    const rational left = form == 4 ? rational(k) : (form == 1 || form == 3 ? Q[dst] : Q[a]);
    const rational right = (form == 2 || form == 3) ? rational(k) : Q[b];
    if (!q_def(op, left, right))
        return false;
    rational r;
    switch (form)
    {
    case 0:
        r = op == 0 ? Q[a] + Q[b] : op == 1 ? Q[a] - Q[b] : op == 2 ? Q[a] * Q[b] : Q[a] / Q[b];
        Q[dst] = r;
        break;
    case 1:
        if (op == 0)
            Q[dst] += Q[b];
        else if (op == 1)
            Q[dst] -= Q[b];
        else if (op == 2)
            Q[dst] *= Q[b];
        else
            Q[dst] /= Q[b];
        break;
    case 2:
        r = op == 0 ? Q[a] + k : op == 1 ? Q[a] - k : op == 2 ? Q[a] * k : Q[a] / k;
        Q[dst] = r;
        break;
    case 3:
        if (op == 0)
            Q[dst] += k;
        else if (op == 1)
            Q[dst] -= k;
        else if (op == 2)
            Q[dst] *= k;
        else
            Q[dst] /= k;
        break;
    default:
        r = op == 0 ? k + Q[b] : op == 1 ? k - Q[b] : op == 2 ? k * Q[b] : k / Q[b];
        Q[dst] = r;
        break;
    }
    static const char *FORMS[] = {"bin", "asg", "binI", "asgI", "Ibin"};
    line(std::string("{\"e\":\"qop\",\"op\":\"") + OPS[op] + "\",\"form\":\"" + FORMS[form] + "\",\"dst\":" + std::to_string(dst) + ",\"a\":" + std::to_string(a) + ",\"b\":" + std::to_string(b) + ",\"k\":" + std::to_string(k) + ",\"res\":" + js(Q[dst]) + "}");
    return true;
}
static void qneg(int dst, int a)
{
    Q[dst] = -Q[a];
    line("{\"e\":\"qneg\",\"dst\":" + std::to_string(dst) + ",\"a\":" + std::to_string(a) + ",\"res\":" + js(Q[dst]) + "}");
}
static void qcmp(int c, bool with_int, int a, int b, I k)
{
    bool r;
    if (with_int)
        r = c == 0 ? Q[a] < k : c == 1 ? Q[a] <= k : c == 2 ? Q[a] == k : c == 3 ? Q[a] >= k : c == 4 ? Q[a] > k : Q[a] != k;
    else
        r = c == 0 ? Q[a] < Q[b] : c == 1 ? Q[a] <= Q[b] : c == 2 ? Q[a] == Q[b] : c == 3 ? Q[a] >= Q[b] : c == 4 ? Q[a] > Q[b] : Q[a] != Q[b];
    line(std::string("{\"e\":\"qcmp\",\"op\":\"") + CMPS[c] + "\",\"form\":\"" + (with_int ? "I" : "q") + "\",\"a\":" + std::to_string(a) + ",\"b\":" + std::to_string(b) + ",\"k\":" + std::to_string(k) + ",\"res\":" + (r ? "1" : "0") + "}");
}
static void qpred(int a)
{
    const rational &q = Q[a];
    char buf[256];
    snprintf(buf, sizeof buf, "{\"e\":\"qpred\",\"a\":%d,\"res\":[%d,%d,%d,%d,%d,%d,%d,%d,%d]}", a, is_integer(q), is_zero(q), is_positive(q), is_positive_or_zero(q), is_negative(q), is_negative_or_zero(q), is_infinite(q), is_positive_infinite(q), is_negative_infinite(q));
    line(buf);
}

// ---- inf_rational events --------------------------------------------------------------------------------------
static void emk(int dst, int a, int b)
{
    if (is_infinite(Q[b]))
        return;
    E[dst] = inf_rational(Q[a], Q[b]);
    line("{\"e\":\"emk\",\"dst\":" + std::to_string(dst) + ",\"a\":" + std::to_string(a) + ",\"b\":" + std::to_string(b) + ",\"res\":" + js(E[dst]) + "}");
}
// rk: 0 'e', 1 'q', 2 'I'; compound when asg
static bool eop(int op, int rk, bool asg, int dst, int a, int b, I k)
{
    if (asg)
        a = dst;
    const inf_rational &x = E[a];
    if (rk == 0)
    {
        if (op > 1)
            return false;
        const inf_rational y = op == 0 ? E[b] : -E[b];
        if (!add_def(x.get_rational(), y.get_rational()) || !add_def(x.get_infinitesimal(), y.get_infinitesimal()))
            return false;
        if (asg)
        {
            const inf_rational rhs = E[b]; // a copy: dst may alias b
            if (op == 0)
                E[dst] += rhs;
            else
                E[dst] -= rhs;
        }
        else
            E[dst] = op == 0 ? E[a] + E[b] : E[a] - E[b];
    }
    else
    {
        const rational q = rk == 1 ? Q[b] : rational(k);
        switch (op)
        {
        case 0:
            if (!add_def(x.get_rational(), q))
                return false;
            break;
        case 1:
            if (!add_def(x.get_rational(), -q))
                return false;
            break;
        case 2:
            if (!mul_def(x.get_rational(), q) || !mul_def(x.get_infinitesimal(), q))
                return false;
            break;
        default:
            if (!div_def(x.get_rational(), q) || !div_def(x.get_infinitesimal(), q))
                return false;
            break;
        }
        if (rk == 1)
        {
            if (asg)
            {
                if (op == 0)
                    E[dst] += q;
                else if (op == 1)
                    E[dst] -= q;
                else if (op == 2)
                    E[dst] *= q;
                else
                    E[dst] /= q;
            }
            else
                E[dst] = op == 0 ? E[a] + q : op == 1 ? E[a] - q : op == 2 ? E[a] * q : E[a] / q;
        }
        else
        {
            if (asg)
            {
                if (op == 0)
                    E[dst] += k;
                else if (op == 1)
                    E[dst] -= k;
                else if (op == 2)
                    E[dst] *= k;
                else
                    E[dst] /= k;
            }
            else
                E[dst] = op == 0 ? E[a] + k : op == 1 ? E[a] - k : op == 2 ? E[a] * k : E[a] / k;
        }
    }
    static const char *RK[] = {"e", "q", "I"};
    line(std::string("{\"e\":\"eop\",\"op\":\"") + OPS[op] + "\",\"rk\":\"" + RK[rk] + "\",\"asg\":" + (asg ? "1" : "0") + ",\"dst\":" + std::to_string(dst) + ",\"a\":" + std::to_string(a) + ",\"b\":" + std::to_string(b) + ",\"k\":" + std::to_string(k) + ",\"res\":" + js(E[dst]) + "}");
    return true;
}
// scalar on the left: lk 1 'q' (Q[a]) or 2 'I' (k)
static bool elop(int op, int lk, int dst, int a, int b, I k)
{
    if (op > 2)
        return false;
    const rational q = lk == 1 ? Q[a] : rational(k);
    const inf_rational &y = E[b];
    if (op == 0 && !add_def(q, y.get_rational()))
        return false;
    if (op == 1 && !add_def(q, -y.get_rational()))
        return false;
    if (op == 2 && (!mul_def(y.get_rational(), q) || !mul_def(y.get_infinitesimal(), q)))
        return false;
    if (lk == 1)
        E[dst] = op == 0 ? q + E[b] : op == 1 ? q - E[b] : q * E[b];
    else
        E[dst] = op == 0 ? k + E[b] : op == 1 ? k - E[b] : k * E[b];
    line(std::string("{\"e\":\"elop\",\"op\":\"") + OPS[op] + "\",\"lk\":\"" + (lk == 1 ? "q" : "I") + "\",\"dst\":" + std::to_string(dst) + ",\"a\":" + std::to_string(a) + ",\"b\":" + std::to_string(b) + ",\"k\":" + std::to_string(k) + ",\"res\":" + js(E[dst]) + "}");
    return true;
}
static void eneg(int dst, int a)
{
    E[dst] = -E[a];
    line("{\"e\":\"eneg\",\"dst\":" + std::to_string(dst) + ",\"a\":" + std::to_string(a) + ",\"res\":" + js(E[dst]) + "}");
}
// an inf_rational with an infinite rational part and a non-zero infinitesimal part has no agreed value
// (is -inf + eps above -inf?): such values are never compared or classified
static bool unclean(const inf_rational &e) { return is_infinite(e.get_rational()) && !is_zero(e.get_infinitesimal()); }
static void ecmp(int c, int rk, int a, int b, I k)
{
    if (unclean(E[a]) || (rk == 0 && unclean(E[b])))
        return;
    bool r;
    if (rk == 0)
        r = c == 0 ? E[a] < E[b] : c == 1 ? E[a] <= E[b] : c == 2 ? E[a] == E[b] : c == 3 ? E[a] >= E[b] : c == 4 ? E[a] > E[b] : E[a] != E[b];
    else if (rk == 1)
        r = c == 0 ? E[a] < Q[b] : c == 1 ? E[a] <= Q[b] : c == 2 ? E[a] == Q[b] : c == 3 ? E[a] >= Q[b] : c == 4 ? E[a] > Q[b] : E[a] != Q[b];
    else
        r = c == 0 ? E[a] < k : c == 1 ? E[a] <= k : c == 2 ? E[a] == k : c == 3 ? E[a] >= k : c == 4 ? E[a] > k : E[a] != k;
    static const char *RK[] = {"e", "q", "I"};
    line(std::string("{\"e\":\"ecmp\",\"op\":\"") + CMPS[c] + "\",\"rk\":\"" + RK[rk] + "\",\"a\":" + std::to_string(a) + ",\"b\":" + std::to_string(b) + ",\"k\":" + std::to_string(k) + ",\"res\":" + (r ? "1" : "0") + "}");
}
static void epred(int a)
{
    if (unclean(E[a]))
        return;
    const inf_rational &x = E[a];
    char buf[256];
    snprintf(buf, sizeof buf, "{\"e\":\"epred\",\"a\":%d,\"res\":[%d,%d,%d,%d,%d,%d,%d,%d]}", a, is_zero(x), is_positive(x), is_positive_or_zero(x), is_negative(x), is_negative_or_zero(x), is_infinite(x), is_positive_infinite(x), is_negative_infinite(x));
    line(buf);
}

// ---- lin events ----------------------------------------------------------------------------------------------------
static void lset(int dst, const std::vector<std::pair<var, rational>> &cs, const rational &k)
{ // direct construction through the public fields (an input, not a result)
    lin l;
    for (const auto &[v, c] : cs)
        if (!is_zero(c))
            l.vars.emplace(v, c);
    l.known_term = k;
    L[dst] = l;
    line("{\"e\":\"lset\",\"dst\":" + std::to_string(dst) + ",\"res\":" + js(L[dst]) + "}");
}
static void lmk(int dst, long x, int a)
{
    if (is_infinite(Q[a]) || (x >= 0 && is_zero(Q[a])))
        return;
    L[dst] = x < 0 ? lin(Q[a]) : lin((var)x, Q[a]);
    line("{\"e\":\"lmk\",\"dst\":" + std::to_string(dst) + ",\"x\":" + std::to_string(x) + ",\"a\":" + std::to_string(a) + ",\"res\":" + js(L[dst]) + "}");
}
// rk 0 'l' (L[b]) or 1 'q' (Q[b])
static bool lop(int op, int rk, bool asg, int dst, int a, int b)
{
    if (asg)
        a = dst;
    if (rk == 0)
    {
        if (op > 1)
            return false;
        const lin rhs = L[b];
        if (asg)
        {
            if (op == 0)
                L[dst] += rhs;
            else
                L[dst] -= rhs;
        }
        else
            L[dst] = op == 0 ? L[a] + rhs : L[a] - rhs;
    }
    else
    {
        const rational q = Q[b];
        if (is_infinite(q) || (op == 3 && is_zero(q)))
            return false;
        if (asg)
        {
            if (op == 0)
                L[dst] += q;
            else if (op == 1)
                L[dst] -= q;
            else if (op == 2)
                L[dst] *= q;
            else
                L[dst] /= q;
        }
        else
            L[dst] = op == 0 ? L[a] + q : op == 1 ? L[a] - q : op == 2 ? L[a] * q : L[a] / q;
    }
    line(std::string("{\"e\":\"lop\",\"op\":\"") + OPS[op] + "\",\"rk\":\"" + (rk == 0 ? "l" : "q") + "\",\"asg\":" + (asg ? "1" : "0") + ",\"dst\":" + std::to_string(dst) + ",\"a\":" + std::to_string(a) + ",\"b\":" + std::to_string(b) + ",\"res\":" + js(L[dst]) + "}");
    return true;
}
static bool llop(int op, int dst, int a, int b)
{
    if (op > 2 || is_infinite(Q[a]))
        return false;
    L[dst] = op == 0 ? Q[a] + L[b] : op == 1 ? Q[a] - L[b] : Q[a] * L[b];
    line(std::string("{\"e\":\"llop\",\"op\":\"") + OPS[op] + "\",\"dst\":" + std::to_string(dst) + ",\"a\":" + std::to_string(a) + ",\"b\":" + std::to_string(b) + ",\"res\":" + js(L[dst]) + "}");
    return true;
}
static void lneg(int dst, int a)
{
    L[dst] = -L[a];
    line("{\"e\":\"lneg\",\"dst\":" + std::to_string(dst) + ",\"a\":" + std::to_string(a) + ",\"res\":" + js(L[dst]) + "}");
}
static void reset()
{
    for (auto &q : Q)
        q = rational();
    for (auto &e : E)
        e = inf_rational();
    for (auto &l : L)
        l = lin();
    line("{\"e\":\"reset\"}");
}

// ---- grid ------------------------------------------------------------------------------------------------------------
struct nd
{
    I n, d;
};
static void grid(int G)
{
    // distinct canonical operand values, each remembered with one (possibly non-reduced, negative-denominator) spelling
    std::vector<nd> spell;
    std::set<std::pair<I, I>> seen;
    for (I n = -G; n <= G; ++n)
        for (I d = -G; d <= G; ++d)
        {
            if (n == 0 && d == 0)
                continue;
            qmk(0, n, d); // every spelling goes through the constructor once
            if (seen.insert({Q[0].numerator(), Q[0].denominator()}).second)
                spell.push_back({n, d});
        }
    reset();
    // rational x rational
    for (const auto &a : spell)
    {
        qmk(0, a.n, a.d);
        qpred(0);
        qneg(2, 0);
        for (const auto &b : spell)
        {
            qmk(1, b.n, b.d);
            for (int op = 0; op < 4; ++op)
            {
                qop(op, 0, 2, 0, 1, 0);
                qmk(3, a.n, a.d);
                qop(op, 1, 3, 3, 1, 0);
            }
            for (int c = 0; c < 6; ++c)
                qcmp(c, false, 0, 1, 0);
        }
        // rational x integer
        for (I k = -G; k <= G; ++k)
        {
            if (a.d == 1 || a.d == -1)
                qmk1(3, k);
            for (int op = 0; op < 4; ++op)
            {
                qop(op, 2, 2, 0, 0, k);
                qop(op, 4, 2, 0, 0, k);
                qmk(3, a.n, a.d);
                qop(op, 3, 3, 3, 0, k);
            }
            for (int c = 0; c < 6; ++c)
                qcmp(c, true, 0, 0, k);
        }
    }
    reset();
    // inf_rational: parts from a smaller grid
    const int H = G > 3 ? 3 : G;
    std::vector<nd> rs, is;
    for (const auto &s : spell)
        if (std::labs(s.n) <= H && std::labs(s.d) <= H)
        {
            rs.push_back(s);
            if (s.d != 0 && std::labs(s.n) <= 2 && std::labs(s.d) <= 2 && !(s.n == -2) && !(s.n == 1 && std::labs(s.d) == 2))
                is.push_back(s); // 0, 1, -1, 2, -1/2
        }
    for (const auto &ar : rs)
        for (const auto &ai : is)
        {
            qmk(0, ar.n, ar.d);
            qmk(1, ai.n, ai.d);
            emk(0, 0, 1);
            epred(0);
            eneg(2, 0);
            for (const auto &br : rs)
            {
                qmk(2, br.n, br.d);
                for (int op = 0; op < 4; ++op)
                {
                    eop(op, 1, false, 2, 0, 2, 0);
                    emk(3, 0, 1);
                    eop(op, 1, true, 3, 3, 2, 0);
                    elop(op, 1, 2, 2, 0, 0);
                }
                for (int c = 0; c < 6; ++c)
                    ecmp(c, 1, 0, 2, 0);
                for (const auto &bi : is)
                {
                    if (std::labs(bi.n) > 1 || std::labs(bi.d) > 1)
                        continue; // thin the e x e product: infinitesimal parts 0, 1, -1 on the right
                    qmk(3, bi.n, bi.d);
                    emk(1, 2, 3);
                    for (int op = 0; op < 2; ++op)
                    {
                        eop(op, 0, false, 2, 0, 1, 0);
                        emk(3, 0, 1);
                        eop(op, 0, true, 3, 3, 1, 0);
                    }
                    for (int c = 0; c < 6; ++c)
                        ecmp(c, 0, 0, 1, 0);
                }
            }
            for (I k = -2; k <= 2; ++k)
            {
                for (int op = 0; op < 4; ++op)
                {
                    eop(op, 2, false, 2, 0, 0, k);
                    emk(3, 0, 1);
                    eop(op, 2, true, 3, 3, 0, k);
                    elop(op, 2, 2, 0, 0, k);
                }
                for (int c = 0; c < 6; ++c)
                    ecmp(c, 2, 0, 0, k);
            }
        }
    reset();
    // lin over variables {0, 1}: coefficients and constants from a small pool
    std::vector<rational> pool = {rational(0), rational(1), rational(-1), rational(2), rational(1, 2)};
    if (G > 3)
    {
        pool.push_back(rational(-2));
        pool.push_back(rational(-3, 2));
    }
    std::vector<lin> lins;
    for (const auto &c0 : pool)
        for (const auto &c1 : pool)
            for (const auto &k : pool)
            {
                lin l;
                if (!is_zero(c0))
                    l.vars.emplace(0, c0);
                if (!is_zero(c1))
                    l.vars.emplace(1, c1);
                l.known_term = k;
                lins.push_back(l);
            }
    auto set_lin = [](int dst, const lin &l)
    {
        std::vector<std::pair<var, rational>> cs(l.vars.begin(), l.vars.end());
        lset(dst, cs, l.known_term);
    };
    for (size_t i = 0; i < lins.size(); ++i)
    {
        set_lin(0, lins[i]);
        lneg(2, 0);
        for (const auto &q : pool)
        {
            qmk(0, q.numerator(), q.denominator());
            for (int op = 0; op < 4; ++op)
            {
                lop(op, 1, false, 2, 0, 0);
                set_lin(2, lins[i]);
                lop(op, 1, true, 2, 2, 0);
                llop(op, 2, 0, 0);
            }
        }
        // lin x lin: thinned deterministically in the small grid
        for (size_t j = 0; j < lins.size(); ++j)
        {
            if (G <= 3 && (i * 7 + j) % 3 != 0)
                continue;
            set_lin(1, lins[j]);
            for (int op = 0; op < 2; ++op)
            {
                lop(op, 0, false, 2, 0, 1);
                set_lin(2, lins[i]);
                lop(op, 0, true, 2, 2, 1);
            }
        }
    }
    // construction forms
    for (const auto &q : pool)
    {
        qmk(0, q.numerator(), q.denominator());
        lmk(0, -1, 0);
        lmk(1, 0, 0);
        lmk(2, 3, 0);
    }
}

// ---- random ------------------------------------------------------------------------------------------------------------
static void random_run(unsigned seed, int n_exec)
{
    std::mt19937 rng(seed);
    auto rnd = [&](int n)
    { return (int)(rng() % n); };
    auto small = [&]()
    { return (I)rnd(25) - 12; };
    for (int ex = 0; ex < n_exec; ++ex)
    {
        reset();
        for (int i = 0; i < 4; ++i)
            switch (rnd(8))
            {
            case 0:
                qmk(i, rnd(2) ? 1 : -1, 0);
                break;
            case 1:
                qmk(i, 0, small() == 0 ? 1 : small() | 1);
                break;
            default:
                qmk(i, small() * (rnd(4) == 0 ? 9 : 1), (small() | 1) * (rnd(4) == 0 ? 7 : 1));
            }
        for (int i = 0; i < 4; ++i)
        {
            int b = rnd(4);
            if (is_infinite(Q[b]))
                qmk(b, small(), 1 + rnd(4));
            emk(i, rnd(4), b);
        }
        for (int i = 0; i < 3; ++i)
            lset(i, {{0, rational(small(), 1 + rnd(3))}, {1, rational(small(), 1 + rnd(3))}, {2, rational(rnd(3) ? 0 : small())}}, rational(small(), 1 + rnd(3)));
        const int steps = 40 + rnd(40);
        for (int s = 0; s < steps; ++s)
        {
            const int what = rnd(100);
            if (what < 34)
            { // rationals
                const int dst = rnd(4), a = rnd(4), b = rnd(4);
                switch (rnd(8))
                {
                case 0:
                    qneg(dst, a);
                    break;
                case 1:
                    qcmp(rnd(6), rnd(2), a, b, small());
                    break;
                case 2:
                    qpred(a);
                    break;
                default:
                    qop(rnd(4), rnd(5), dst, a, b, small());
                }
                qfix(dst, rng);
            }
            else if (what < 67)
            { // inf_rationals
                const int dst = rnd(4), a = rnd(4), b = rnd(4);
                switch (rnd(9))
                {
                case 0:
                    eneg(dst, a);
                    break;
                case 1:
                    ecmp(rnd(6), rnd(3), a, b, small());
                    break;
                case 2:
                    epred(a);
                    break;
                case 3:
                case 4:
                    elop(rnd(3), 1 + rnd(2), dst, a, b, small());
                    break;
                default:
                    eop(rnd(4), rnd(3), rnd(2), dst, a, b, small());
                }
                if (wide(E[dst]) || is_infinite(E[dst].get_infinitesimal()))
                {
                    qmk(0, small(), 1 + rnd(4));
                    qmk(1, small(), 1 + rnd(4));
                    emk(dst, 0, 1);
                }
                qfix(b, rng);
            }
            else
            { // lins
                const int dst = rnd(3), a = rnd(3), b = rnd(3), qb = rnd(4);
                switch (rnd(8))
                {
                case 0:
                    lneg(dst, a);
                    break;
                case 1:
                    llop(rnd(3), dst, qb, b);
                    break;
                case 2:
                    lmk(dst, rnd(3) - 1, qb);
                    break;
                case 3:
                case 4:
                    lop(rnd(4), 1, rnd(2), dst, a, qb);
                    break;
                default:
                    lop(rnd(2), 0, rnd(2), dst, a, b);
                }
                if (wide(L[dst]))
                    lset(dst, {{0, rational(small(), 1 + rnd(3))}, {1, rational(small())}}, rational(small(), 1 + rnd(3)));
            }
        }
    }
}

int main(int argc, char **argv)
{
    if (argc < 4)
    {
        fprintf(stderr, "usage: arith_driver grid <G> <out> | random <seed> <n> <out>\n");
        return 2;
    }
    signal(SIGABRT, on_abort);
    signal(SIGSEGV, on_abort);
    signal(SIGFPE, on_abort);
    if (!strcmp(argv[1], "grid"))
    {
        out = fopen(argv[3], "w");
        grid(atoi(argv[2]));
    }
    else
    {
        out = fopen(argv[4], "w");
        random_run((unsigned)atol(argv[2]), atoi(argv[3]));
    }
    fclose(out);
    printf("lines=%ld\n", n_lines);
    return 0;
}
