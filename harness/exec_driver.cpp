// exec_driver: plan_driver with the executor attached (C19): after solve() the plan is executed tick by tick with a
// scripted client that requests delays and injects failures; see the VERIF_EXECUTOR sections of plan_driver.cpp.
//
//   exec_driver <out.ndjson> <timeout_s> <name> <file.rddl>... --exec <seed> <p_delay_start%> <p_delay_end%> <p_failure%> <ticks>
#define VERIF_EXECUTOR
#include "plan_driver.cpp"
