// Minimal JSON reader/writer helpers shared by the drivers (deliberately independent of the repository's own json
// library, which is code under test).
#pragma once
#include <cstdlib>
#include <map>
#include <memory>
#include <stdexcept>
#include <string>
#include <vector>

namespace vj
{
  struct val
  {
    enum kind
    {
      NUL,
      NUM,
      STR,
      ARR,
      OBJ
    } k = NUL;
    long num = 0;
    std::string str;
    std::vector<val> arr;
    std::map<std::string, val> obj;

    bool has(const std::string &key) const { return k == OBJ && obj.count(key); }
    const val &operator[](const std::string &key) const
    {
      auto it = obj.find(key);
      if (it == obj.end())
        throw std::runtime_error("missing key " + key);
      return it->second;
    }
    const val &operator[](size_t i) const { return arr.at(i); }
    size_t size() const { return arr.size(); }
    long i() const { return num; }
    const std::string &s() const { return str; }
  };

  class parser
  {
  public:
    explicit parser(const std::string &s) : s(s) {}
    val parse()
    {
      val v = value();
      return v;
    }

  private:
    const std::string &s;
    size_t p = 0;
    void ws()
    {
      while (p < s.size() && (s[p] == ' ' || s[p] == '\t' || s[p] == '\n' || s[p] == '\r'))
        ++p;
    }
    val value()
    {
      ws();
      if (p >= s.size())
        throw std::runtime_error("unexpected end of json");
      val v;
      char c = s[p];
      if (c == '{')
      {
        v.k = val::OBJ;
        ++p;
        ws();
        if (s[p] == '}')
        {
          ++p;
          return v;
        }
        while (true)
        {
          ws();
          val key = value();
          ws();
          if (s[p] != ':')
            throw std::runtime_error("expected :");
          ++p;
          v.obj[key.str] = value();
          ws();
          if (s[p] == ',')
          {
            ++p;
            continue;
          }
          if (s[p] == '}')
          {
            ++p;
            return v;
          }
          throw std::runtime_error("expected , or }");
        }
      }
      if (c == '[')
      {
        v.k = val::ARR;
        ++p;
        ws();
        if (s[p] == ']')
        {
          ++p;
          return v;
        }
        while (true)
        {
          v.arr.push_back(value());
          ws();
          if (s[p] == ',')
          {
            ++p;
            continue;
          }
          if (s[p] == ']')
          {
            ++p;
            return v;
          }
          throw std::runtime_error("expected , or ]");
        }
      }
      if (c == '"')
      {
        v.k = val::STR;
        ++p;
        while (p < s.size() && s[p] != '"')
        {
          if (s[p] == '\\' && p + 1 < s.size())
          {
            ++p;
            switch (s[p])
            {
            case 'n':
              v.str += '\n';
              break;
            case 't':
              v.str += '\t';
              break;
            case 'r':
              v.str += '\r';
              break;
            default:
              v.str += s[p];
            }
          }
          else
            v.str += s[p];
          ++p;
        }
        ++p;
        return v;
      }
      if (c == '-' || (c >= '0' && c <= '9'))
      {
        v.k = val::NUM;
        char *end;
        v.num = strtol(s.c_str() + p, &end, 10);
        p = end - s.c_str();
        return v;
      }
      if (s.compare(p, 4, "true") == 0)
      {
        v.k = val::NUM;
        v.num = 1;
        p += 4;
        return v;
      }
      if (s.compare(p, 5, "false") == 0)
      {
        v.k = val::NUM;
        v.num = 0;
        p += 5;
        return v;
      }
      if (s.compare(p, 4, "null") == 0)
      {
        p += 4;
        return v;
      }
      throw std::runtime_error("bad json at " + std::to_string(p));
    }
  };

  inline val parse(const std::string &s) { return parser(s).parse(); }

  inline std::string esc(const std::string &s)
  {
    std::string o;
    for (char c : s)
      switch (c)
      {
      case '"':
        o += "\\\"";
        break;
      case '\\':
        o += "\\\\";
        break;
      case '\n':
        o += "\\n";
        break;
      case '\t':
        o += "\\t";
        break;
      case '\r':
        o += "\\r";
        break;
      default:
        if ((unsigned char)c < 0x20)
          o += ' ';
        else
          o += c;
      }
    return o;
  }
} // namespace vj
