// riddle_driver: runs the real RIDDLE lexer / parser on generated inputs and records what it answered.
//
//   riddle_driver lex <cases.ndjson> <out.ndjson> <first_index>
//       each case: {"input":[one-character strings], "tokens":[expected kinds]}. For every case from <first_index> on,
//       one line {"e":"lex","i":index,"input":[..],"tokens":[kinds answered],"status":"ok"|"error"|"hang"} is written.
//       A case on which the lexer does not return within the budget is recorded as "hang" and the process exits with
//       status 4: the runner restarts it after that case.
//   riddle_driver parse <cases.ndjson> <out.ndjson> <first_index>
//       each case: {"name":..,"text":..}: the parser alone is run (no semantic analysis); line
//       {"e":"parse","i":index,"name":..,"status":"ok"|"error"|"hang","what":..}
#include "riddle_lexer.h"
#include "riddle_parser.h"
#include "vjson.h"
#include <csignal>
#include <cstdio>
#include <cstring>
#include <fstream>
#include <iostream>
#include <new>
#include <sstream>
#include <sys/resource.h>
#include <unistd.h>

using namespace riddle;

static const char *SYM[] = {"BOOL_ID", "INT_ID", "REAL_ID", "TP_ID", "STRING_ID", "TYPEDEF_ID", "ENUM_ID", "CLASS_ID", "GOAL_ID", "FACT_ID",
                            "PREDICATE_ID", "NEW_ID", "OR_ID", "THIS_ID", "VOID_ID", "RETURN_ID", "DOT_ID", "COMMA_ID", "COLON_ID", "SEMICOLON_ID",
                            "LPAREN_ID", "RPAREN_ID", "LBRACKET_ID", "RBRACKET_ID", "LBRACE_ID", "RBRACE_ID", "PLUS_ID", "MINUS_ID", "STAR_ID",
                            "SLASH_ID", "AMP_ID", "BAR_ID", "EQ_ID", "GT_ID", "LT_ID", "BANG_ID", "EQEQ_ID", "LTEQ_ID", "GTEQ_ID", "BANGEQ_ID",
                            "IMPLICATION_ID", "CARET_ID", "ID_ID", "BoolLiteral_ID", "IntLiteral_ID", "RealLiteral_ID", "StringLiteral_ID", "EOF_ID"};

static FILE *g_out = nullptr;
static std::string g_head;   // the beginning of the line of the case being processed
static std::string g_tokens; // tokens answered so far

static void on_alarm(int)
{
    fprintf(g_out, "%s\"tokens\":[%s],\"status\":\"hang\"}\n", g_head.c_str(), g_tokens.c_str());
    fflush(g_out);
    _exit(4);
}
static void on_crash(int sig)
{
    fprintf(g_out, "%s\"tokens\":[%s],\"status\":\"abort\",\"sig\":%d}\n", g_head.c_str(), g_tokens.c_str(), sig);
    fflush(g_out);
    _exit(5);
}
static void on_terminate() { on_crash(-1); }

static std::string jinput(const vj::val &in)
{
    std::string s = "[";
    for (size_t i = 0; i < in.size(); ++i)
        s += (i ? ",\"" : "\"") + vj::esc(in[i].s()) + "\"";
    return s + "]";
}

int main(int argc, char **argv)
{
    if (argc < 5)
    {
        fprintf(stderr, "usage: riddle_driver lex|parse <cases> <out> <first>\n");
        return 2;
    }
    const bool lex_mode = !strcmp(argv[1], "lex");
    std::ifstream in(argv[2]);
    g_out = fopen(argv[3], "a");
    const long first = atol(argv[4]);
    signal(SIGALRM, on_alarm);
    signal(SIGABRT, on_crash);
    signal(SIGSEGV, on_crash);
    signal(SIGFPE, on_crash);
    std::set_terminate(on_terminate);
    struct rlimit rl = {1L << 30, 1L << 30}; // a runaway literal must not exhaust the machine
    setrlimit(RLIMIT_AS, &rl);
    std::string ln;
    long idx = -1;
    while (std::getline(in, ln))
    {
        if (ln.empty())
            continue;
        ++idx;
        if (idx < first)
            continue;
        vj::val c = vj::parse(ln);
        if (lex_mode)
        {
            std::string text;
            for (size_t i = 0; i < c["input"].size(); ++i)
                text += c["input"][i].s();
            g_head = "{\"e\":\"lex\",\"i\":" + std::to_string(idx) + ",\"input\":" + jinput(c["input"]) + ",";
            g_tokens.clear();
            std::string status = "ok";
            alarm(2);
            try
            {
                std::stringstream ss(text);
                lexer lx(ss);
                while (true)
                {
                    token *t = lx.next();
                    if (!t)
                    {
                        status = "error";
                        break;
                    }
                    g_tokens += (g_tokens.empty() ? "\"" : ",\"") + std::string(SYM[t->sym]) + "\"";
                    const bool eof = t->sym == EOF_ID;
                    delete t;
                    if (eof)
                        break;
                }
            }
            catch (const std::bad_alloc &)
            {
                alarm(0);
                on_alarm(0); // unbounded growth: the lexer does not terminate on this input
            }
            catch (const std::exception &)
            {
                status = "error";
            }
            alarm(0);
            fprintf(g_out, "%s\"tokens\":[%s],\"status\":\"%s\"}\n", g_head.c_str(), g_tokens.c_str(), status.c_str());
        }
        else
        {
            g_head = "{\"e\":\"parse\",\"i\":" + std::to_string(idx) + ",\"name\":\"" + vj::esc(c["name"].s()) + "\",";
            g_tokens.clear();
            std::string status = "ok", what;
            alarm(3);
            try
            {
                std::stringstream ss(c["text"].s());
                parser prs(ss);
                ast::compilation_unit *cu = prs.parse();
                delete cu;
            }
            catch (const std::bad_alloc &)
            {
                alarm(0);
                on_alarm(0);
            }
            catch (const std::exception &ex)
            {
                status = "error";
                what = ex.what();
            }
            alarm(0);
            fprintf(g_out, "%s\"tokens\":[],\"status\":\"%s\",\"what\":\"%s\"}\n", g_head.c_str(), status.c_str(), vj::esc(what).c_str());
        }
    }
    fclose(g_out);
    return 0;
}
