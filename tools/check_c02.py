"""C02 - a problem is declared unsolvable only if it has no solution."""
import json
import os
import random
import re
import gen_problems
import plancheck
import vlib

PROP = 'C02'
CLASSES = {}


def make(rd, tier, seed, ev):
    quick = tier == 'quick'
    named, expected = [], {}
    # 1. the constraint-only fragment, decided by ConstraintSat.tla; every program in three equivalent formulations
    progs = gen_problems.constraint_programs(150 if quick else 1500, seed)
    tight, tclasses = gen_problems.tight_family(len(progs))
    verdicts, r = gen_problems.decide_constraints(progs + tight, rd)
    ev.add_model(r, 'ConstraintSat: complete decision procedure (boolean enumeration x Fourier-Motzkin) on the generated constraint programs')
    rnd = random.Random(seed)
    for p in progs:
        order = list(range(len(p['stmts'])))
        rnd.shuffle(order)
        variants = [gen_problems.render_constraints(p),
                    gen_problems.render_constraints(p, names=('flag', 'other', 'alpha', 'beta'), order=order),
                    gen_problems.render_constraints(p, order=list(reversed(range(len(p['stmts'])))), tautology=True)]
        for k, text in enumerate(variants):
            name = 'cp%04d_v%d' % (p['id'], k)
            named.append((name, text))
            expected[name] = bool(verdicts[p['id']])
            CLASSES.setdefault('cp%04d' % p['id'], []).append(name)
    # 1b. bounds that meet exactly / miss by one, in every statement order (each order is one formulation of its class)
    for cls, ids in tclasses.items():
        for pid in ids:
            p = tight[pid - len(progs)]
            name = 'ct%04d' % pid
            named.append((name, gen_problems.render_constraints(p)))
            expected[name] = bool(verdicts[pid])
            CLASSES.setdefault(cls, []).append(name)
    # 2. small timeline problems decided by PlanGen.tla
    shapes, r2 = gen_problems.plangen_shapes(2, rd)
    ev.add_model(r2, 'PlanGen: complete decision procedure (enumeration of integer schedules) on all small timeline problems')
    for s in gen_problems.sample_shapes(shapes, 150 if quick else 2000, seed):
        n = gen_problems.shape_name(s)
        named.append((n, gen_problems.render_timeline(s)))
        expected[n] = bool(s['feasible'])
    # 3. problems built around a known solution
    for n, t, ok in gen_problems.temporal_family() + gen_problems.causal_family():
        named.append((n, t))
        expected[n] = ok
    gen = plancheck.write_problems(rd, named)
    fgen, fexp = plancheck.feature_problems(rd, ['tp', 'inheritance', 'multisuper', 'incremental', 'cardinality', 'impossible', 'unify', 'enummember', 'coefsign'], seed, tier)
    gen += fgen
    expected.update({k: v for k, v in fexp.items() if v})
    ev.sample({'generated_problem': gen[0][0], 'text': open(gen[0][1][0]).read(), 'has_solution': expected[gen[0][0]]})
    ev.cov['problems_with_known_solution'] = sum(1 for v in expected.values() if v)
    return plancheck.remember(gen), {k: v for k, v in expected.items()}


def equivalence(ev, results, cfg):
    """members of an equivalence class must get the same verdict (timeouts excluded)"""
    verdict = {}
    for name, ls in results:
        v = [json.loads(ln) for ln in ls if '"e":"verdict"' in ln]
        if v:
            verdict[name] = 'solved' if v[0]['verdict'] == 'solved' else 'unsolvable'
    findings = vlib.load_findings(PROP)
    for cls, names in CLASSES.items():
        vs = {verdict[n] for n in names if n in verdict}
        ev.cov['evaluations'] += 1
        if len(vs) > 1:
            sig = 'equiv:%s' % cls
            if vlib.match_finding(findings, sig):
                continue
            if os.environ.get('VERIF_COLLECT'):
                vlib.log('[collect] %s %s' % (sig, {n: verdict.get(n) for n in names}))
                continue
            rp = os.path.join(vlib.VERIF, 'replays', '%s-%s-%s.txt' % (PROP, cfg, cls))
            with open(rp, 'w') as fh:
                for n in names:
                    fh.write('// %s -> %s\n%s\n' % (n, verdict.get(n), open(plancheck.PROBLEM_FILES[n][0]).read()))
            ev.violations += 1
            vlib.violation(PROP, rp, 'equivalent formulations %s got different verdicts %s in %s' % (names, [verdict.get(n) for n in names], cfg))
            return 1
    return 0


def run(tier, seed):
    orig = plancheck.check_expected

    def both(ev, prop, res, expected, cfg, rd):
        return orig(ev, prop, res, expected, cfg, rd) or equivalence(ev, res, cfg)
    plancheck.check_expected = both
    try:
        return plancheck.run_plan(PROP, tier, seed,
            rule='ground truth from independent complete decision procedures written in TLA+ and run by TLC: ConstraintSat.tla on '
                 'seeded constraint-only programs (2 booleans, 2 reals, 2-4 statements: literals, |, ^, six linear relations, '
                 'two-way disjunctions, relation | literal), each rendered in three equivalent formulations (renamed identifiers, permuted '
                 'statements, added tautologies), and on the boundary family (bounds that meet exactly or miss by one through x0 rel x1, optionally guarded by a boolean that another statement falsifies, in every statement order); PlanGen.tla on every small StateVariable / ReusableResource scheduling '
                 'problem (sampled); and families built around a known solution (temporal patterns, recursive / unifying rules, time-point programs with a planted witness read at once / inside a rule / incrementally, inheritance chains). '
                 'A problem that has a solution must not be answered unsolvable / inconsistent, and the members of an '
                 'equivalence class must get the same verdict, in every configuration; distinct_nontrivial = (configuration, '
                 'problem) pairs with a known solution that were run to a verdict',
            assumptions=['solver runs exceeding the time budget are excluded and counted (the property quantifies over terminating searches)',
                         'planner no-goods are not checked for entailment: even the smallest planning problem has more than 30 '
                         'propositional variables, beyond model enumeration; the conflict-analysis and theory-lemma code paths are '
                         'covered at network level by C07'],
            make_problems=make, configs_quick=['dbg_exec', 'rel_exec_hadd_ci'], configs_thorough=plancheck.ALL_CONFIGS,
            stat_key='known_solved', timeout_q=15, timeout_t=60)
    finally:
        plancheck.check_expected = orig


def replay(path):
    return plancheck.replay_problem(PROP, path)
