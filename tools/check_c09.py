"""C09 - linear arithmetic: reported values are a model, conflicts mean infeasibility."""
import netcheck

PROP = 'C09'


def run(tier, seed):
    return netcheck.run_net(PROP, tier, seed,
        profiles=[('lra', 120, 1500, 45), ('mix', 30, 300, 40)],
        rule='(0) the transitions of the implementation-shaped model LraImpl (spec/LraGen.tla: one test per transition between abstract states) replayed on the real lra_theory: bounds, literal values, decision level and recorded lemmas compared with the model after every call; executions that deviate or end in a conflict are decided by NetworkTrace (values are a model, bounds exclude no solution, lemmas and no-goods entailed); (1) seeded systems of linear relations (1-3 variables per side, coefficients in {1,-1,2,-2,1/2,-3/2}, strict and '
             'non-strict, shared sub-expressions, derived variables) asserted, negated and retracted through assume/pop/next '
             'histories; after every successful propagation the reported values satisfy every asserted relation (strict ones '
             'through infinitesimals), lie within the reported bounds, the bounds exclude no real solution (Fourier-Motzkin), '
             'and every learnt clause / false answer is justified by infeasibility; distinct_nontrivial = distinct executions '
             'that assume at least one linear-relation literal',
        release_too=True,
        assumptions=['at most 6 theory atoms and 5 arithmetic variables per execution (Fourier-Motzkin in TLC)',
                     'numbers beyond 20000 in magnitude make an execution "wide": it is dropped and counted'],
        models=[('MC_LraSem', 'MC_LraSem_quick.cfg', 'MC_LraSem.cfg',
                 'the Fourier-Motzkin oracle agrees with vertex enumeration on every system of <= 2 (quick) / 3 (thorough) constraints over 2 variables', None),
                ('MC_LraImpl', 'MC_LraImpl_A1.cfg', 'MC_LraImpl_A.cfg',
                 'implementation-shaped model of lra_theory (tableau, values, bounds with reasons, undo layers, unate and row bound propagation with lemmas, Bland pivoting, conflict explanations): RowsEquivalent, ValuesSatisfyRows, ValuesWithinBounds, NoCycling, BoundsExact, ReasonsValid, PopRestores, LemmasValid / ConflictValid (by Fourier-Motzkin), AssertedFeasible; explored per state without the lemma database', None),
                ('MC_LraImpl', None, 'MC_LraImpl_A1pairs.cfg', 'the same model with two literals assigned in one batch (the theory sees the first while the second is assigned but not yet propagated)', None)],
        lraimpl=(['LraGen_A.cfg'], ['LraGen_A.cfg', 'LraGen_B.cfg']))


def replay(path):
    return netcheck.replay(PROP, path)
