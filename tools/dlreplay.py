"""Replays the transitions of the implementation-shaped model DiffLogicImpl (printed by spec/DiffLogicGen.tla, one test per
transition of its state graph) on the real idl_theory / rdl_theory through net_driver, and compares the distance matrix the
library reports with the model's after every level episode, every pop and the backjump after a conflict."""
import json
import os
import re
from fractions import Fraction

import vlib

INF = 100000


def generate(cfg, timeout, walks=None):
    """runs TLC on DiffLogicGen and returns (atoms, tests); walks = (number per worker, seed): random walks over the model
    (tlc -simulate) instead of the exhaustive search"""
    if walks:
        r = vlib.tlc('DiffLogicGen', cfg=cfg, workers=4, timeout=timeout, simulate='num=%d' % walks[0], depth=16, extra=('-seed', str(walks[1])))
    else:
        r = vlib.tlc('DiffLogicGen', cfg=cfg, workers=1, timeout=timeout)
    if not r['no_error']:
        raise vlib.CheckError('DiffLogicGen/%s failed:\n%s' % (cfg, r['out'][-1500:]))
    atoms, tests = None, []
    for ln in r['out'].splitlines():
        m = re.match(r'<<"(DLTEST|DLATOMS)", (".*")>>$', ln)
        if not m:
            continue
        j = json.loads(json.loads(m.group(2)))
        if m.group(1) == 'DLATOMS':
            atoms = j
        else:
            tests.append(j)
    if atoms is None or not tests:
        raise vlib.CheckError('DiffLogicGen/%s printed no tests' % cfg)
    return atoms, tests, r


def lit(var, positive=True):
    return 2 * var + (1 if positive else 0)


def js(o):
    return json.dumps(o, separators=(',', ':'))


def translate(atoms, test, real):
    """-> (lines, checkpoints): checkpoints are (index of the op in lines, kind, expected) where expected is a matrix,
    or ('bases', level, bases) after a conflict, or 'dead' for an inconsistency at root level"""
    n, ops, bases = test['n'], test['ops'], test['bases']
    R = 1 if real else 0
    lines = [js({'e': 'reset', 'profile': 'rdl' if real else 'idl', 'dlsize': 16})]
    for _ in range(n - 1):
        lines.append(js({'e': 'dl_new_var', 'real': R}))
    for (f, t, d) in atoms:      # atom i (1-based) becomes sat variable i
        lines.append(js({'e': 'dl_dist', 'real': R, 'from': f, 'to': t, 'd': [[d, 1], [0, 1]]}))
    # level episodes: a push and the asserts that follow it
    episodes, i = [], 0
    while i < len(ops):
        if ops[i][0] == 'push':
            j = i + 1
            while j < len(ops) and ops[j][0] in ('assert', 'conflict'):
                j += 1
            episodes.append((i, j))
            i = j
        else:
            i += 1
    dvar = {}
    for k, (a, b) in enumerate(episodes):
        lines.append(js({'e': 'new_var'}))
        dvar[a] = len(atoms) + 1 + k
    for (a, b) in episodes:
        for o in ops[a + 1:b]:
            lines.append(js({'e': 'new_clause', 'lits': [lit(dvar[a], False), lit(o[1], o[2] == 'T')]}))
    lines.append(js({'e': 'propagate'}))
    cps = []
    level = 0
    i = 0
    while i < len(ops):
        o = ops[i]
        if o[0] == 'push':
            a, b = i, [e for e in episodes if e[0] == i][0][1]
            level += 1
            lines.append(js({'e': 'assume', 'p': lit(dvar[a])}))
            last = ops[b - 1]
            if last[0] == 'conflict':
                cps.append((len(lines) - 1, 'conflict', ('bases', level, bases), None, None))
            else:
                # the reasons the model records during the episode; an atom that is asserted later in the same episode is
                # already assigned in the library when the theory would explain it (the sat core enqueues the whole level
                # first): no reason is recorded for it there
                lem = []
                for k in range(a + 1, b):
                    later = {abs(x[1]) for x in ops[k + 1:b]}
                    lem += [sorted(c) for c in ops[k][3] if not ({abs(l) for l in c} & later)]
                cps.append((len(lines) - 1, 'episode', last[-1], last[-2], lem))
            i = b
        elif o[0] == 'pop':
            level -= 1
            lines.append(js({'e': 'pop'}))
            cps.append((len(lines) - 1, 'pop', o[-1], o[-2], []))
            i += 1
        else:  # an assert at root level
            lines.append(js({'e': 'new_clause', 'lits': [lit(o[1], o[2] == 'T')]}))
            lines.append(js({'e': 'propagate'}))
            if o[0] == 'conflict':
                cps.append((len(lines) - 1, 'root-conflict', 'dead', None, None))
            else:
                cps.append((len(lines) - 1, 'root-assert', o[-1], o[-2], [sorted(c) for c in o[3]]))
            i += 1
    return lines, cps


def decode_model(v, scale):
    if v >= INF:
        return 'inf'
    if scale == 1:
        return (Fraction(v), Fraction(0))
    r = (v + scale // 2) // scale
    return (Fraction(r), Fraction(v - r * scale))


def decode_real(x, real):
    if not real:
        return 'inf' if x >= 999999 else (Fraction(x), Fraction(0))
    (rn, rd), (kn, kd) = x
    if rd == 0:
        return 'inf'
    return (Fraction(rn, rd), Fraction(kn, kd))


def compare(model_mat, out, real, scale):
    obs = out['obs']['rdl' if real else 'idl']
    n = len(model_mat)
    for i in range(n):
        for j in range(n):
            m = decode_model(model_mat[i][j], scale)
            c = decode_real(obs[i][j], real)
            if m != c:
                return 'dist(%d,%d): library %s, model %s' % (i, j, c, m)
    return None


VAL = {'F': 0, 'T': 1, 'U': 2}


def compare_vals(vals, out, natoms):
    """the value of every atom: what was asserted, else what the theory propagated (complete and sound propagation)"""
    got = out['vals'][1:natoms + 1]
    want = [VAL[x] for x in vals]
    if got != want:
        k = [i for i in range(natoms) if got[i] != want[i]][0]
        return 'atom %d has value %s in the library, %s in the model (0 false, 1 true, 2 undefined)' % (k + 1, got[k], want[k])
    return None


def lemma_deviation(lem, out):
    """every reason the theory records (learnt clause of origin 0) is one the model records for the same episode"""
    want = {tuple(c) for c in lem}
    for h in out.get('hooks', []):
        if h.get('k') == 'learnt' and h.get('o') == 0:
            got = tuple(sorted((x // 2) * (1 if x % 2 == 1 else -1) for x in h['lits']))
            if got not in want:
                return 'the theory recorded the reason %s, the model records %s' % (list(got), sorted(want))
    return None


def run(ev, prop, tier, real, extra=None):
    """returns the number of violations reported"""
    kind = 'rdl' if real else 'idl'
    cfg = extra or 'DiffLogicGen_%s%s.cfg' % (kind, '' if tier == 'quick' else '_thorough')
    walks = None
    if cfg.endswith('_sim.cfg'):
        walks = (int(os.environ.get("DLWALKS", "3000")) if tier == "quick" else 40000, 20260926)
    atoms, tests, r = generate(cfg, 600 if tier == 'quick' else 3000, walks)
    ev.add_model(r, ('test generation: %d random walks of up to 16 steps over DiffLogicImpl (%s)' % (len(tests), cfg)) if walks
                 else 'test generation: one test per transition of DiffLogicImpl (%s)' % cfg)
    vlib.build_repo('dbg', targets=['smt'])
    drv = vlib.build_driver('net_driver', 'dbg')
    rd = vlib.run_dir('%s-dlimpl-%s' % (prop, kind))
    findings = vlib.load_findings(prop)
    checked = {'episode': 0, 'pop': 0, 'conflict': 0, 'root-assert': 0, 'root-conflict': 0}
    bad = None
    CH = 8000
    deviating = []
    for c0 in range(0, len(tests), CH):
        bad = replay_chunk(ev, prop, kind, real, atoms, tests[c0:c0 + CH], c0, drv, rd, findings, checked, deviating)
        if bad:
            break
    key = kind if not extra else extra.replace('DiffLogicGen_', '').replace('.cfg', '')
    ev.cov['model_transitions_replayed_' + key] = len(tests)
    ev.cov['model_checkpoints_compared_' + key] = dict(checked)
    ev.cov['model_reason_deviations_' + key] = len(deviating)
    if deviating and not bad:
        # executions in which the theory explains a propagation differently from the model: NetworkTrace decides whether
        # the recorded clause is a valid one
        vlib.log('[dlimpl] %d executions record a reason the model does not (first: %s): NetworkTrace decides' % (len(deviating), deviating[0][0]))
        import netcheck
        flat = [ln for (_, e) in deviating[:300] for ln in e]
        if vlib.validate_batch(ev, prop, 'NetworkTrace', flat, netcheck.signature, 'dlimpl-' + key, timeout=1700, env={'VPROP': prop},
                               describe_fn=netcheck.describe):
            return 1
    if bad:
        k, what, msg, lines = bad
        rp = vlib.keep_replay(prop, 'dlimpl-' + kind, lines)
        ev.violations += 1
        vlib.violation(prop, rp, 'transition %d of DiffLogicImpl (%s) replayed on %s_theory: %s [%s]' % (k, cfg, kind, msg, what))
        return 1
    return 0


def replay_chunk(ev, prop, kind, real, atoms, tests, c0, drv, rd, findings, checked, deviating):
    all_lines, plans = [], []
    for t in tests:
        lines, cps = translate(atoms, t, real)
        plans.append((len(all_lines), lines, cps, t))
        all_lines += lines
    inp, outp = os.path.join(rd, 'tests.ndjson'), os.path.join(rd, 'out.ndjson')
    if os.path.exists(outp):
        os.remove(outp)
    vlib.write_lines(inp, all_lines)
    rc, o = vlib.run([drv, 'replay', inp, outp], timeout=1200, check=False)
    outs = vlib.split_executions(vlib.read_lines(outp))
    if len(outs) != len(plans) and not (rc < 0 or rc >= 128 or rc == 3):
        raise vlib.CheckError('replay of the model tests: %d executions for %d tests (rc=%d) %s' % (len(outs), len(plans), rc, o[-500:]))
    bad = None
    for k, (_, lines, cps, t) in enumerate(plans):
        if k >= len(outs):
            bad = (c0 + k, 'abort', 'the library crashed during the replay (rc=%d)' % rc, lines)
            break
        ex = [json.loads(x) for x in outs[k]]
        # the literal numbering the translation relies on
        for a in range(len(atoms)):
            ln = ex[t['n'] + a]
            if ln.get('e') != 'dl_dist' or ln.get('ret') != lit(a + 1):
                raise vlib.CheckError('unexpected numbering in replay: %s' % outs[k][t['n'] + a][:200])
        dev = None
        for (idx, what, expected, xvals, xlem) in cps:
            if expected == 'dead' and idx - 1 < len(ex) and ex[idx - 1].get('e') == 'new_clause' and ex[idx - 1].get('ret') == 0:
                checked[what] = checked.get(what, 0) + 1
                continue     # refused at once: the driver makes no further call on an inconsistent network
            if idx >= len(ex) or ex[idx].get('e') in ('abort', 'garbage'):
                bad = (c0 + k, what, 'the library did not answer call %d' % idx, lines)
                break
            out = ex[idx]
            if expected == 'dead':
                msg = 'inconsistent constraints accepted at root level' if out.get('ret') == 1 else None
            elif isinstance(expected, tuple):
                _, level, bases = expected
                dl = out['dl']
                if dl > level or (dl == level and out.get('ret') == 1):
                    msg = 'a negative cycle was not detected: assume answered %s at level %d' % (out.get('ret'), dl)
                else:
                    msg = compare(bases[min(dl, level - 1)], out, real, t['scale'])
            else:
                msg = None if out.get('ret', 1) == 1 else 'consistent constraints refused (ret=%s)' % out.get('ret')
                msg = msg or compare(expected, out, real, t['scale'])
                # the values of the atoms: everywhere for the properties about propagation, after a pop for C08
                if not msg and xvals is not None and (what == 'pop' or prop != 'C08'):
                    msg = compare_vals(xvals, out, len(atoms))
                if not msg and xlem is not None and not dev:
                    dev = lemma_deviation(xlem, out)
            checked[what] = checked.get(what, 0) + 1
            if msg:
                sig = 'dlimpl:%s:%s' % (kind, what)
                f = vlib.match_finding(findings, sig)
                if f:
                    if f['signature'] not in [x['signature'] for x in ev.known]:
                        vlib.known_finding(prop, '%s [%s]' % (f['what'], f['signature']))
                        ev.known.append({'signature': f['signature'], 'what': f['what'], 'example': msg})
                    continue
                bad = (c0 + k, what, msg + ' after call %d (%s)' % (idx, lines[idx]), lines)
                break
        if bad:
            break
        if dev:
            deviating.append((dev, outs[k]))
    return bad
