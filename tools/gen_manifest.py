#!/usr/bin/env python3
"""Writes MANIFEST.json from the table below (one source of truth for the registered checks)."""
import json, os
V = os.path.dirname(os.path.dirname(os.path.abspath(__file__)))

CHECKS = {
 'C15': dict(cat='model_checking', design='3/C15',
   text='Every operator form of rational / inf_rational / lin is executed by the real library on a complete operand grid '
        '(non-reduced and negative-denominator spellings, infinities) and on seeded random chains; TLC validates every '
        'recorded application against the TLA+ reference arithmetic (Rat/InfRat/Lin, whose own laws TLC checks '
        'exhaustively in MC_Arith). Exhaustive on the grid, sampled beyond it.',
   note='Trusted: TLC, the TLA+ reference arithmetic (self-checked by MC_Arith), the driver\'s JSON printing of operands and '
        'results. Magnitudes <= 181 (no overflow); operations the library asserts out are not issued.',
   technique='TLA+ reference semantics + TLC trace validation of implementation executions (register machine)'),
}

NET_NOTE = ('Trusted: TLC; the TLA+ semantics (SatSem model enumeration, LraSem Fourier-Motzkin - self-checked against vertex '
            'enumeration by MC_LraSem -, DiffLogic Floyd-Warshall); the hooks (clauses as given, learnt clauses, literal '
            'definitions) and the driver\'s projection of the state after every call. Scope: <= 11 propositional variables and '
            '<= 6 theory atoms per execution; documented preconditions respected.')
def net(design, text, technique='TLC trace validation of recorded API histories against the TLA+ network specification (NetworkTrace)'):
    return dict(cat='model_checking', design=design, text=text, note=NET_NOTE, technique=technique)
CHECKS.update({
 'C07': net('3/C07', 'Seeded API histories on the real sat_core with all four theories attached are recorded call by call (results, hook events, full visible state) and every line is validated by TLC against NetworkTrace.tla: reported truth values entailed by clauses /\\ theories /\\ decisions (model enumeration), learnt clauses entailed at the moment they are learnt, false answers only on unsatisfiability, complete assignments are models. Implementation-shaped model SatCoreImpl (clause literal order, watch lists, trail, first-UIP analysis, check()) model-checked by TLC; every transition of its state graph and random walks over it are replayed on the library with exact comparison of answers, values and levels.'),
 'C08': net('3/C08', 'The same recorded histories (assume / pop / next / check with conflicts and backjumps): whenever the same set of assigned literals recurs, bounds, distance matrices and domains must be identical (history variable in the trace spec), and every assigned literal must be entailed by the standing decisions, so root level keeps only root consequences. Model-derived tests (SatCoreImpl, DiffLogicImpl, LraImpl) replayed with the state compared after every pop; learnt clauses recorded after an undo must still be entailed.'),
 'C09': net('3/C09', 'LRA-heavy histories: after every successful propagation the reported values satisfy every asserted relation in exact InfRat arithmetic, lie within the reported bounds, the bounds exclude no real solution (Fourier-Motzkin in TLA+), learnt clauses and false answers are justified by infeasibility.'),
 'C10': net('3/C10', 'IDL/RDL histories: the reported distance matrix equals the Floyd-Warshall closure (TLA+) of the currently asserted constraints, negated ones included; no undecided constraint is decided by the distances; learnt explanations are entailed; inconsistency only with a negative cycle. Implementation-shaped model DiffLogicImpl (incremental update, predecessors, enforcing constraints, undo layers, the theory\'s own propagation of decided constraints with the reason it records) model-checked by TLC; every transition and random walks replayed on idl_theory and rdl_theory: matrices, atom values and recorded reasons compared.'),
 'C11': net('3/C11', 'Requests of the five relations between linear expressions before/after root tightening: constants must be entailed in every model, literals receive the relation as their meaning against which all later observations are judged, a request never changes the set of models.'),
 'C12': net('3/C12', 'Requests of the five relations between difference expressions and bounds/distance/equates queries: in every model the literal is true (false) only if the asserted constraints entail the relation (its negation); query answers equal the values computed in TLA+ from the logged variable-level matrix.'),
 'C13': net('3/C13', 'Every constructor call (duplicates, complementary pairs, constants, root-assigned arguments, cache hits, pairwise and product encodings) with the clauses it emitted: the returned literal equals the formula in every model (eq/conj/disj), forces the cardinality constraint and excludes no satisfying argument assignment (amo/exo), and the request does not constrain existing variables. Implementation-shaped model ReifyImpl (the five constructors as written, with new_clause and root-level propagation) model-checked by TLC; every transition replayed on the library with exact comparison of the literal returned, the number of variables and their values.'),
 'C14': net('3/C14', 'Object variables over domains of 1-3 values: exactly one value literal true in every model, reported domain = values whose literal is not false, equality literal true exactly in the models where both variables take the same value, over assume/pop/next histories. Implementation-shaped model OvImpl (ov_theory on top of the model of the sat core\'s constructors) model-checked by TLC; every transition replayed on the library: answers, propositional values and allowed values compared.'),
})
PLAN_NOTE = ('Trusted: TLC; the TLA+ predicates of Plan.tla (exact InfRat arithmetic); the hooks (clauses as given, literal '
             'definitions, operator translations, guarded facts) and plan_driver\'s projection of the reported solution through '
             'the public API (values, domains, atoms, flaws / resolvers via solver_listener, extract_timelines). Timeouts are '
             'excluded and counted.')
def plan(design, text, technique='TLC validation of every reported solution against Plan.tla (PlanTrace) on repository examples and TLC-generated problem families'):
    return dict(cat='model_checking', design=design, text=text, note=PLAN_NOTE, technique=technique)
CHECKS.update({
 'C01': plan('3/C01', 'Every solution reported on the repository examples and on generated timeline / causal / temporal families, in 2 (quick) or 8 (thorough) build configurations, is validated by TLC: no clause falsified or left unit, every guarded fact true, every defined literal agrees with its definition evaluated exactly on the reported values, every RIDDLE operator result equals the operator applied to its argument values.'),
 'C02': dict(cat='model_checking', design='3/C02', note=PLAN_NOTE,
    text='Ground truth from complete decision procedures written in TLA+ and evaluated by TLC (ConstraintSat.tla: boolean enumeration x Fourier-Motzkin on seeded constraint programs; PlanGen.tla: exhaustive integer schedules for every small timeline problem) and from problems built around known solutions; the planner must not answer unsolvable on a solvable problem, and equivalent formulations (renaming, permutation, tautologies) must get the same verdict, in every configuration.',
    technique='TLA+ decision procedures evaluated by TLC as ground truth, verdicts of the real solver compared (spec -> code)'),
 'C03': plan('3/C03', 'Flaws, resolvers and causal links observed through solver_listener; on every reported solution TLC checks that each plan atom has exactly one chosen resolver, activation / unification conditions hold on the reported values, sub-goals of active goals are in the plan, and no unified atom is reachable from its own target.'),
 'C04': plan('3/C04', 'State-variable problems enumerated by PlanGen.tla plus repository examples: on every reported solution no two active atoms assigned to one instance overlap, and the extracted timeline lists at most one / exactly the covering atoms per segment.'),
 'C05': plan('3/C05', 'Reusable-resource problems enumerated by PlanGen.tla plus repository examples: on every reported solution the exact sum of amounts at every start instant is within capacity and per-segment usage of the extracted timeline equals the sum over the covering atoms.'),
 'C06': plan('3/C06', 'The fact/goal x predicate-kind x direct/rule x time-pattern family plus all repository examples: every active interval atom satisfies origin <= start <= end <= horizon and duration = end - start >= 0, every active impulse atom origin <= at <= horizon, in exact arithmetic.'),
})
CHECKS.update({
 'C16': dict(cat='model_checking', design='3/C16', note=PLAN_NOTE + ' Lexing: riddle_driver prints the token kinds answered by riddle::lexer.',
    text='Lexing: every string up to length 4/5 over a 10-character alphabet plus a keyword/operator dictionary, enumerated by LexGen.tla with expected token kinds from the TLA+ lexical definition (Lexer!Lex); the real lexer must answer the same kinds or an error at the same token (LexTrace). Evaluation: expression trees (arithmetic with unary minus, + - * /, relations, connectives) enumerated by ExprGen.tla, printed with the minimal parentheses required by the documented precedence, in four syntactic contexts, with exact expected values; the real parser + core + solver must accept each program and give the pinned variable exactly that value (PlanTrace expect lines).',
    technique='TLA+ lexical definition and expression evaluator as generators + oracles; TLC validation of the real lexer/parser/solver answers'),
 'C17': dict(cat='model_checking', design='3/C17', note=PLAN_NOTE,
    text='Class tables (chain, fork, two supertypes), instance creation orders, a variable declared among them and one constraint, enumerated by ObjGen.tla with the reference semantics; the domain at declaration (hook on object-variable creation) must be exactly the instances of the type and subtypes existing at that point, solvable iff some instance fits, the choice is one that fits; plus pinned constructor / initialiser / field-chain programs.',
    technique='TLA+ reference semantics of object variables as generator + oracle; TLC validation of recorded solutions'),
 'C18': dict(cat='exploration', design='3/C18',
    note='Termination and absence of aborts are decided on the recorded traces by the trace specifications (an abort / hang line is never accepted); memory errors and leaks are only observed through AddressSanitizer / UndefinedBehaviorSanitizer (vptr check off: core passes this to a base class before construction), not decided by TLC. Leak sites listed in known_findings.jsonl are reported as KNOWN-FINDING.',
    text='Lexer inputs (all strings up to length 4/5 over the critical alphabet), parser inputs (every repository example whole, truncated, with seeded noise; malformed programs), every repository example and generated family through read()+solve() in Debug and ASan+UBSan builds, and seeded network API histories under the sanitizers: every run must return (result or reported error) within its budget; aborts, failed assertions, uncaught exceptions, sanitizer reports and unlisted leak sites are violations.',
    technique='exploration with TLC trace specifications as the acceptance filter (LexTrace, PlanTrace, NetworkTrace) + sanitizer builds'),
})
CHECKS.update({
 'C19': dict(cat='model_checking', design='3/C19', note=PLAN_NOTE + ' exec_driver records every executor_listener callback with the values at that moment.',
    text='Solved plans are executed tick by tick by the real executor with a scripted client (seeded delays from the starting / ending callbacks, failures between ticks) under several policies; TLC validates every recorded callback against the executor section of PlanTrace.tla (time advances by one unit, started once / ended once, start before end, not before the planned time, not in a tick in which a delay was requested, frozen times never move, everything due is dispatched) and re-validates every adapted plan with the Plan predicates.',
    technique='TLC trace validation of recorded executor callbacks + Plan validity of every adapted plan'),
 'C20': dict(cat='model_checking', design='3/C20',
    note='Trusted: TLC; the ThreadPool / ParPivot models are hand-written abstractions of thread_pool.cpp and of the PARALLELIZE section of lra_theory::pivot (bound to the code by the differential run, by the pool executions validated by PoolTrace - events at the level a caller and the tasks see, not inside the mutex - and by reading); the OS produces the schedules of the real runs; C++ memory-model races are only observed through ThreadSanitizer.',
    text='TLC explores every interleaving of the thread-pool protocol (mutex, shared condition variable, active counter, enqueue/join) and of the per-row pivot tasks with per-variable mutexes: join returns only when all tasks are done and always returns, watch-list updates are mutually exclusive, the result equals the sequential one (and the model without the mutex fails). The same linear-arithmetic call sequences are executed on the sequential and on the PARALLELIZE build under several pool sizes and ParTrace requires identical results, values, bounds and learnt clauses for every call; ThreadSanitizer runs the same sequences. The pool itself is driven as a pivot drives it (rounds of enqueue + join on pools of 1-8 workers): PoolTrace requires that every task ran exactly once before its join() returned, and a join() that does not return is a rejected hang event.',
    technique='exhaustive TLC model checking of the concurrency protocol + TLC-judged differential traces SEQ vs PARALLELIZE build'),
})
NOT_YET = {
}

def main():
    props = [json.loads(l) for l in open(os.path.join(V, 'properties.jsonl'))]
    checks = []
    for p in props:
        c = CHECKS.get(p['id'])
        if not c:
            continue
        checks.append({
            'property_id': p['id'],
            'quick_cmd': './check %s --tier quick' % p['id'],
            'thorough_cmd': './check %s --tier thorough' % p['id'],
            'evidence_file': '/verif/evidence/%s.json' % p['id'],
            'replay_cmd_template': './check %s --replay {path}' % p['id'],
            'engine': 'tlc-trace',
            'level_claimed': {'category': c['cat'], 'text': c['text'], 'design_ref': 'DESIGN.md section ' + c['design']},
            'level_note': c['note'],
            'technique': c['technique'],
        })
    na = [{'property_id': p['id'], 'reason': NOT_YET.get(p['id'], 'check not built yet in this round (planned: see DESIGN.md section 3); nothing is claimed')}
          for p in props if p['id'] not in CHECKS]
    man = {
        'version': 1,
        'setup_cmd': './setup.sh',
        'hooks': {
            'guard': 'ORATIO_VERIF',
            'enable': 'cmake -DORATIO_VERIF=ON (adds the compile definition ORATIO_VERIF to target smt, PUBLIC); checks build /repo into /verif/build/<config>',
            'baseline_off_cmd': 'cmake -G Ninja -S /repo -B /repo/_build >/dev/null && cmake --build /repo/_build >/dev/null && ctest --test-dir /repo/_build -j8 --timeout 900',
            'source_commits': [l.strip() for l in open(os.path.join(V, 'hook_commits.txt')) if l.strip()],
            'add_only': True,
        },
        'engines': [
            {'name': 'tlc-trace', 'path': '/verif/check', 'serves_properties': sorted(CHECKS),
             'kind_free_text': 'TLA+ specifications in /verif/spec checked with TLC: exhaustive small-scope models (MC_*.cfg) and trace validation of NDJSON traces recorded from the real C++ libraries by the drivers in /verif/harness'},
        ],
        'checks': checks,
        'not_applicable': na,
        'notes': 'Single entry point ./check <id> --tier quick|thorough [--seed N] [--replay path]; VERIF_REPO selects the tree (default /repo). Known findings: /verif/known_findings.jsonl.',
    }
    json.dump(man, open(os.path.join(V, 'MANIFEST.json'), 'w'), indent=1)

main()
