#!/usr/bin/env python3
"""Writes MANIFEST.json from the table below (one source of truth for the registered checks)."""
import json, os
V = os.path.dirname(os.path.dirname(os.path.abspath(__file__)))

CHECKS = {
 'C15': dict(cat='model_checking', design='3/C15',
   text='Every operator form of rational / inf_rational / lin is executed by the real library on a complete operand grid '
        '(non-reduced and negative-denominator spellings, infinities) and on seeded random chains; TLC validates every '
        'recorded application against the TLA+ reference arithmetic (Rat/InfRat/Lin, whose own laws TLC checks '
        'exhaustively in MC_Arith). Exhaustive on the grid, sampled beyond it.',
   note='Trusted: TLC, the TLA+ reference arithmetic (self-checked by MC_Arith), the driver\'s JSON printing of operands and '
        'results. Magnitudes <= 181 (no overflow); operations the library asserts out are not issued.',
   technique='TLA+ reference semantics + TLC trace validation of implementation executions (register machine)'),
}
NOT_YET = {
}

def main():
    props = [json.loads(l) for l in open(os.path.join(V, 'properties.jsonl'))]
    checks = []
    for p in props:
        c = CHECKS.get(p['id'])
        if not c:
            continue
        checks.append({
            'property_id': p['id'],
            'quick_cmd': './check %s --tier quick' % p['id'],
            'thorough_cmd': './check %s --tier thorough' % p['id'],
            'evidence_file': '/verif/evidence/%s.json' % p['id'],
            'replay_cmd_template': './check %s --replay {path}' % p['id'],
            'engine': 'tlc-trace',
            'level_claimed': {'category': c['cat'], 'text': c['text'], 'design_ref': 'DESIGN.md section ' + c['design']},
            'level_note': c['note'],
            'technique': c['technique'],
        })
    na = [{'property_id': p['id'], 'reason': NOT_YET.get(p['id'], 'check not built yet in this round (planned: see DESIGN.md section 3); nothing is claimed')}
          for p in props if p['id'] not in CHECKS]
    man = {
        'version': 1,
        'setup_cmd': './setup.sh',
        'hooks': {
            'guard': 'ORATIO_VERIF',
            'enable': 'cmake -DORATIO_VERIF=ON (adds the compile definition ORATIO_VERIF to target smt, PUBLIC); checks build /repo into /verif/build/<config>',
            'baseline_off_cmd': 'cmake -G Ninja -S /repo -B /repo/_build >/dev/null && cmake --build /repo/_build >/dev/null && ctest --test-dir /repo/_build -j8 --timeout 900',
            'source_commits': [l.strip() for l in open(os.path.join(V, 'hook_commits.txt')) if l.strip()],
            'add_only': True,
        },
        'engines': [
            {'name': 'tlc-trace', 'path': '/verif/check', 'serves_properties': sorted(CHECKS),
             'kind_free_text': 'TLA+ specifications in /verif/spec checked with TLC: exhaustive small-scope models (MC_*.cfg) and trace validation of NDJSON traces recorded from the real C++ libraries by the drivers in /verif/harness'},
        ],
        'checks': checks,
        'not_applicable': na,
        'notes': 'Single entry point ./check <id> --tier quick|thorough [--seed N] [--replay path]; VERIF_REPO selects the tree (default /repo). Known findings: /verif/known_findings.jsonl.',
    }
    json.dump(man, open(os.path.join(V, 'MANIFEST.json'), 'w'), indent=1)

main()
