"""Feature-cross families of RIDDLE problems for the planner-level checks (C01 - C06). Every family crosses the language
features that reach one part of the planner - strict / non-strict temporal relations, constant / variable capacities,
predicate inheritance chains, time-point (difference-logic) variables, mutual recursion with unification, statement order,
incremental reading - on small problems. No ground truth is needed for C01, C03 - C06: every reported solution is validated
by PlanTrace. Where a verdict is known by construction it is returned (True: the problem has a solution).

Each entry: (name, parts, solvable) where parts is a list of program texts: more than one = read incrementally with a
solve() in between."""
import re
import itertools
import random


def f(x):
    return ('%d.0' % x) if float(x).is_integer() else repr(float(x))


RELS = [  # (name, text with {a} {b}, strict)
    ('none', None),
    ('a_before_b', '{a}.end <= {b}.start;'),
    ('a_strictly_before_b', '{a}.end < {b}.start;'),
    ('b_ends_after_a_starts', '{b}.end > {a}.start;'),
    ('b_ends_atleast_a_starts', '{b}.end >= {a}.start;'),
    ('b_starts_after_a_starts', '{b}.start > {a}.start;'),
    ('same_start', '{a}.start == {b}.start;'),
    ('b_starts_in_a', '{b}.start >= {a}.start; {b}.start < {a}.end;'),
    ('meets', '{a}.end == {b}.start;'),
    ('b_starts_before_a_ends', '{b}.start < {a}.end;'),
    ('not_same_start', '{a}.start != {b}.start;'),
]


def timeline_family(seed, n):
    """state variables and reusable resources: 2-3 atoms on one instance x temporal relations (strict ones included) x
    fixed / free times x capacity forms x statement order x incremental reading"""
    rnd = random.Random(seed)
    out = []
    # the systematic part: every relation x host x whether the first atom is pinned
    combos = list(itertools.product(('sv', 'rr'), range(len(RELS)), (True, False), ('fact', 'goal')))
    rnd.shuffle(combos)
    k = 0
    for host, ri, pinned, mode_b in combos:
        if len(out) >= n:
            break
        rel = RELS[ri]
        capk = rnd.choice(['const', 'const', 'var', 'var_late', 'time']) if host == 'rr' else 'const'
        dur_a, dur_b = rnd.choice([5, 10]), rnd.choice([3, 5])
        three = rnd.random() < 0.3
        incr = rnd.random() < 0.3
        L = []       # declarations
        C = []       # constraints that may be reordered / read later
        if host == 'sv':
            # the state variable may also be an agent, in either order of the base types
            bases = rnd.choice(['StateVariable', 'StateVariable', 'StateVariable, Agent', 'Agent, StateVariable'])
            L.append('class Robot : %s { predicate Busy(real id)%s { duration >= %s; } }' % (bases, ' : Interval' if 'Agent' in bases else '', f(rnd.choice([1, 3]))))
            L.append('Robot r = new Robot();')
            new = lambda i, args: 'new r.Busy(id:%s%s)' % (f(i), (', ' + args) if args else '')
        else:
            amt = [rnd.choice([2, 3, 4]) for _ in range(3)]
            cap = rnd.choice([4, 5, 6])
            if capk == 'const':
                L.append('ReusableResource r = new ReusableResource(%s);' % f(cap))
            elif capk in ('var', 'var_late'):
                L.append('real lost;')
                L.append('lost >= 0.0;')
                L.append('lost <= %s;' % f(cap + 2))
                L.append('ReusableResource r = new ReusableResource(%s - lost);' % f(cap + 4))
                C.append('lost >= %s;' % f(rnd.choice([2, 4])))
            new = lambda i, args: 'new r.Use(amount:%s%s)' % (f(amt[i]), (', ' + args) if args else '')
        a_args = 'start:20.0, end:%s' % f(20 + dur_a) if pinned else ''
        atoms = [('fact', 'a', a_args), (mode_b, 'b', '')] + ([('fact', 'c', '')] if three else [])
        if host == 'rr' and capk == 'time':
            # the capacity depends on where an atom of another timeline ends up
            L.append('class Mode : StateVariable { predicate On() { duration >= 2.0; } }')
            L.append('Mode m = new Mode();')
            L.append('fact m0 = new m.On();')
            L.append('fact m1 = new m.On();')
            L.append('ReusableResource r = new ReusableResource(%s - m1.start - m0.start);' % f(cap + 4))
        for i, (mode, nm, args) in enumerate(atoms):
            L.append('%s %s = %s;' % (mode, nm, new(i, args)))
            if not args:
                C.append('%s.duration >= %s;' % (nm, f(dur_b)))
        if rel[1]:
            C.append(rel[1].format(a='a', b='b'))
            if three:
                C.append(RELS[rnd.randrange(1, len(RELS))][1].format(a='b', b='c'))
        L.append('horizon >= 10.0;')
        C.append('horizon <= 200.0;')
        rnd.shuffle(C)
        name = 'ft_%s_%s_%s_%s_%s%s%s_%d' % (host, rel[0], 'pin' if pinned else 'free', mode_b, capk, '_3' if three else '', '_inc' if incr else '', k)
        k += 1
        if incr and C:
            cut = rnd.randrange(0, len(C))
            out.append((name, ['\n'.join(L + C[:cut]) + '\n', '\n'.join(C[cut:]) + '\n'], None))
        else:
            out.append((name, ['\n'.join(L + C) + '\n'], None))
    return out


def inheritance_family():
    """predicates that reach Interval / Impulse directly, through an empty predicate, through a non-empty one, or through
    two levels x fact / goal x direct / through a rule x hosts (top level, an agent class, a plain class with origin > 0); constraints push the atom off zero"""
    out = []
    for base in ('Interval', 'Impulse'):
        for chain in ('direct', 'emptymid', 'mid', 'emptymid2', 'mid_emptymid'):
            for mode in ('fact', 'goal'):
                for via in ('direct', 'rule'):
                    for host in ('plain', 'agent', 'class'):
                        push = 'start >= 5.0; duration >= d;' if base == 'Interval' else 'at >= 3.0; d >= 0.0;'
                        midbody = ('duration >= 1.0;' if base == 'Interval' else 'at >= 1.0;')
                        decl = []
                        if chain == 'direct':
                            decl.append('predicate Leaf(real d) : %s { %s }' % (base, push))
                        elif chain == 'emptymid':
                            decl += ['predicate Mid() : %s { }' % base, 'predicate Leaf(real d) : Mid { %s }' % push]
                        elif chain == 'mid':
                            decl += ['predicate Mid() : %s { %s }' % (base, midbody), 'predicate Leaf(real d) : Mid { %s }' % push]
                        elif chain == 'emptymid2':
                            decl += ['predicate Top() : %s { }' % base, 'predicate Mid() : Top { }', 'predicate Leaf(real d) : Mid { %s }' % push]
                        else:
                            decl += ['predicate Top() : %s { %s }' % (base, midbody), 'predicate Mid() : Top { }', 'predicate Leaf(real d) : Mid { %s }' % push]
                        if host == 'agent':
                            L = ['class Ag : Agent {'] + ['  ' + d for d in decl] + ['}', 'Ag ag = new Ag();']
                            new = 'new ag.Leaf(d:3.0)'
                        elif host == 'class':      # a plain class (no smart type among its ancestors) declaring the predicates
                            L = ['class Lab {'] + ['  ' + d for d in decl] + ['}', 'Lab ag = new Lab();', 'origin == 2.0;']
                            new = 'new ag.Leaf(d:3.0)'
                        else:
                            L = list(decl)
                            new = 'new Leaf(d:3.0)'
                        if via == 'direct':
                            L.append('%s x = %s;' % (mode, new))
                        else:
                            L.append('predicate Outer() { %s x = %s; }' % (mode, new))
                            L.append('goal o = new Outer();')
                        L.append('horizon >= 20.0;')
                        out.append(('fi_%s_%s_%s_%s_%s' % (base.lower(), chain, mode, via, host), ['\n'.join(L) + '\n'], True))
                        if mode == 'fact':
                            # a fact whose time is given with its arguments: only the temporal rule of Interval / Impulse ties
                            # its end to its start and keeps it within the horizon (the rule of a fact's own predicate is
                            # not applied)
                            pinned = new.replace('d:3.0', 'd:3.0, start:10.0' if base == 'Interval' else 'd:3.0, at:25.0')
                            L2 = [x.replace(new, pinned) for x in L[:-1]]
                            if base == 'Interval':
                                L2.append('horizon >= 20.0;')
                            else:
                                L2.append('horizon <= 20.0;')      # the impulse lies beyond the horizon: no solution
                            out.append(('fi_%s_%s_pinned_%s_%s' % (base.lower(), chain, via, host), ['\n'.join(L2) + '\n'], base == 'Interval'))
    return out


def tp_family(seed, n):
    """time-point (difference logic) variables: release / deadline windows and separations, at top level and inside a rule,
    in every statement order; all are satisfiable by construction (a witness is planted)"""
    rnd = random.Random(seed)
    out = []
    for k in range(n):
        nv = rnd.choice([2, 3])
        names = ['t%d' % i for i in range(nv)]
        wit = [rnd.randrange(0, 12) for _ in range(nv)]            # the planted solution
        cons, lows = [], []
        for i in range(nv):
            lo, hi = wit[i] - rnd.choice([0, 1, 5]), wit[i] + rnd.choice([0, 2, 50])
            # a time point without a lower bound has no earliest time (the library reports -inf for it): every time point
            # gets its release time with its declaration
            lows.append('%s >= %s;' % (names[i], f(lo)))
            cons.append('%s <= %s;' % (names[i], f(hi)))
        for _ in range(rnd.choice([1, 2, 3])):
            i, j = rnd.sample(range(nv), 2)
            d = wit[j] - wit[i]
            form = rnd.choice(['sep_max', 'sep_min', 'ord', 'eq', 'strict'])
            if form == 'sep_max':
                cons.append('%s - %s <= %s;' % (names[j], names[i], f(d + rnd.choice([0, 1]))))
            elif form == 'sep_min':
                cons.append('%s - %s >= %s;' % (names[j], names[i], f(d - rnd.choice([0, 1]))))
            elif form == 'ord':
                cons.append(('%s <= %s;' if d >= 0 else '%s >= %s;') % (names[i], names[j]))
            elif form == 'eq':
                cons.append('%s - %s == %s;' % (names[j], names[i], f(d)))
            else:
                cons.append('%s - %s < %s;' % (names[j], names[i], f(d + 1)))
        rnd.shuffle(cons)
        where = rnd.choice(['top', 'rule', 'split'])
        head = ''.join('tp %s;\n' % x for x in names) + '\n'.join(lows) + '\n'
        if where == 'rule':
            inner = [c for c in cons if ' - ' in c or sum(1 for x in names if x in c) > 1]
            outer = [c for c in cons if c not in inner] + lows
            pars = ', '.join('tp %s' % x for x in names)
            text = 'predicate V(%s) { %s }\ngoal v = new V();\n' % (pars, ' '.join(inner))
            for c in outer:
                for x in names:
                    c = c.replace(x, 'v.' + x)
                text += c + '\n'
            out.append(('fp_%s_%d' % (where, k), [text], True))
        elif where == 'split' and len(cons) > 1:
            cut = rnd.randrange(1, len(cons))
            out.append(('fp_%s_%d' % (where, k), [head + '\n'.join(cons[:cut]) + '\n', '\n'.join(cons[cut:]) + '\n'], True))
        else:
            out.append(('fp_%s_%d' % (where, k), [head + '\n'.join(cons) + '\n'], True))
    return out


def causal_cross_family(seed, n):
    """mutual recursion between goal trees with unification: P_i needs Q_i; Q_i needs P_j or a base case guarded by a
    constraint; decisions taken at top level (disjunctions with costs) kill or allow the base cases. Every reported
    solution must be well-founded (validated by PlanTrace: Justified, SupportAcyclic)."""
    rnd = random.Random(seed)
    out = []
    for k in range(n):
        np_ = rnd.choice([1, 2, 2, 3])
        L = ['predicate E() { }']
        for i in range(np_):
            j = (i + 1) % np_ if rnd.random() < 0.7 else i
            base_guard = rnd.choice(['x >= 5.0;', 'x <= 2.0;', ''])
            L.append('predicate P%d(real x) { goal q = new Q%d(x: x); }' % (i, i))
            branches = ['{ goal p = new P%d(x: x); }' % j, '{ %s goal e = new E(); }' % base_guard]
            if rnd.random() < 0.3:
                branches.reverse()
            L.append('predicate Q%d(real x) { %s }' % (i, ' or '.join(branches)))
        ng = rnd.choice([2, 2, 3])
        vars_ = ['a%d' % i for i in range(ng)]
        for v in vars_:
            L.append('real %s;' % v)
        for gi, v in enumerate(vars_):
            kind = rnd.choice(['P', 'Q'])
            L.append('goal g%d = new %s%d(x: %s);' % (gi, kind, rnd.randrange(np_), v))
        for v in vars_[:rnd.choice([1, 2])]:
            c1, c2 = rnd.choice([(3, 10), (10, 3), (1, 1)])
            L.append('{ %s <= 3.0; } [%s] or { %s >= 5.0; } [%s]' % (v, f(c1), v, f(c2)))
        if rnd.random() < 0.5 and ng >= 2:
            L.append('%s == %s;' % (vars_[0], vars_[1]))
        out.append(('fc_%d' % k, ['\n'.join(L) + '\n'], None))
    return out


def as_problems(entries, write):
    """entries -> [(name, files-with---then)] using write(name, text) -> path"""
    probs = []
    for name, parts, _ in entries:
        files = []
        for i, t in enumerate(parts):
            if i:
                files.append('--then')
            files.append(write('%s%s' % (name, '' if i == 0 else '_part%d' % i), t))
        probs.append((name, files))
    return probs


def session_family():
    """C18: sessions in which the client hands scripts to read(script) one after the other, catches a reported error and goes
    on: a script that declares something (a predicate with a rule, a class with a constructor and a method, a typedef / enum)
    and then fails in a later phase, followed by a valid script that uses the declarations, and a solve(). Nothing may
    abort, hang or touch invalid memory; (name, parts, None)"""
    decls = {
        'pred': ('predicate P(real x) { x >= 1.0; goal q = new Q(y: x); }\npredicate Q(real y) { y <= 10.0; }\n', 'goal g0 = new P(x: 3.0);\n'),
        'class': ('class K { real v; K(real v) : v(v) { v >= 0.0; } predicate Do(real d) : Interval { duration >= d; } }\nK k0 = new K(2.0);\n', 'goal d0 = new k0.Do(d: 2.0);\n'),
        'enum': ('enum Color {"red", "green"} | {"blue"};\nColor c0;\n', 'Color c1;\nc1 != c0;\n'),
        'sv': ('class Robot : StateVariable { predicate At(real l) { duration >= 1.0; } }\nRobot r0 = new Robot();\n', 'fact a0 = new r0.At(l: 1.0);\na0.start >= 2.0;\n'),
        'method': ('real tot;\nvoid bump(real by) { tot >= by; }\n', 'bump(3.0);\ntot <= 10.0;\n'),
    }
    failures = {
        'unknown_predicate': 'goal bad = new Mispelled();\n',
        'unknown_identifier': 'zz == 1.0;\n',
        'unknown_type': 'Nowhere n;\n',
        'unknown_field': 'real w; w.nofield == 1.0;\n',
        'unknown_method': 'undeclared(1.0);\n',
        'syntax': 'real ; ;\n',
    }
    out = []
    for dn, (decl, use) in decls.items():
        for fn, bad in failures.items():
            out.append(('fs_%s_%s' % (dn, fn), [decl + bad, use], None))                       # declares, fails, is used afterwards
            out.append(('fs_%s_%s_first' % (dn, fn), [bad, decl + use], None))                 # fails first
            out.append(('fs_%s_%s_mid' % (dn, fn), [decl, bad, use, bad, use.replace('0', '5')], None))
    return out


def incremental_family():
    """problems whose first part makes the solver apply rules that contain facts (on plain interval predicates, state
    variables, resources) under a resolver that is not the only one (two goals that can unify), and whose later parts are
    plain top-level statements; (name, parts, True)"""
    hosts = {
        'plain': ('predicate P() : Interval { duration >= 1.0; }\n', 'new P()'),
        'sv': ('class Sv : StateVariable { predicate S() { duration >= 1.0; } }\nSv sv = new Sv();\n', 'new sv.S()'),
        'rr': ('ReusableResource rr = new ReusableResource(5.0);\n', 'new rr.Use(amount:1.0)'),
        'impulse': ('predicate P() : Impulse { at >= 1.0; }\n', 'new P()'),
    }
    out = []
    for hn, (decl, new) in hosts.items():
        for body in ('fact f = %s;' % new, 'goal s = new H(); ', 'fact f = %s; real w; w >= 2.0;' % new):
            for ngoals in (1, 2, 3):
                L = [decl, 'predicate H() { fact h = %s; }\n' % new, 'predicate G(real k) { %s }\n' % body]
                for i in range(ngoals):
                    L.append('goal g%d = new G(k:1.0);\n' % i)
                L.append('horizon >= 10.0;\n')
                out.append(('fx_%s_%d_%d' % (hn, ngoals, len(out)), [''.join(L), 'real y;\ny >= 3.0;\n', 'real z;\nz <= y;\n'], True))
    return out


def illtyped_family():
    """C18: programs that are syntactically valid but apply an operator to operands of the wrong kind (boolean connectives on
    numbers, arithmetic on booleans / objects / strings, relations between booleans, the precedence traps 'x < 5 | y >= 1' and
    'x != 0 | b'): reading must end with a reported error (or succeed where the language allows the mix), never abort;
    (name, parts, None)"""
    decl = 'bool b; bool c; real x; real y; string s; class K { real f = 1.0; }\nK k = new K();\n'
    ops = {'bool': ['b', 'c', '!b', '(x >= 1.0)'], 'num': ['x', 'y', '1.0', '(x + y)', 'k.f'], 'obj': ['k'], 'str': ['s', '"txt"']}
    out = []
    n = 0
    for op in ('|', '&', '^', '->', '+', '-', '*', '/', '<', '<=', '==', '!=', '>=', '>'):
        for lk, rk in (('bool', 'num'), ('num', 'bool'), ('num', 'num'), ('bool', 'bool'), ('obj', 'num'), ('num', 'obj'), ('str', 'num'), ('bool', 'obj'), ('obj', 'obj'), ('str', 'str')):
            l, r = ops[lk][n % len(ops[lk])], ops[rk][(n // 2) % len(ops[rk])]
            n += 1
            if not l[0].isalpha() and l[0] != '(':
                l = '(' + l + ')'
            stmt = '%s %s %s;' % (l, op, r)
            if op in ('+', '-', '*', '/'):
                stmt = '%s %s %s >= 0.0;' % (l, op, r)
            out.append(('fy_%03d' % n, [decl + stmt + '\n'], None))
    for k, stmt in enumerate(['x < 5.0 | y >= 1.0;', 'x != 0.0 | b;', 'x == 0.0 | b;', 'b | x;', '!x;', 'b -> x;', 'x ^ y;', 'k + 1.0 >= 0.0;', 's <= 1.0;',
                              'k.f | b;', 'b & c & x;', 'x + b >= 1.0;', 'x * s >= 1.0;', '(b) >= 1.0;', 'b == x;', 'k == x;', 's == k;',
                              # chains of divisions (one n-ary division for the parser): a zero / a variable among the later divisors
                              'x / 2.0 / 0.0 >= 1.0;', 'x / 0.0 / 2.0 >= 1.0;', '(x / 2.0) / 0.0 >= 1.0;', 'x / 2.0 / 4.0 / 0.0 >= 1.0;',
                              'x / 2.0 / y >= 1.0;', '8.0 / 2.0 / 0.0 <= x;', 'x / 2.0 / 4.0 >= 1.0;']):
        out.append(('fy_trap_%d' % k, [decl + stmt + '\n'], None))
        out.append(('fy_trap_rule_%d' % k, [decl + 'predicate P() { %s }\ngoal g = new P();\n' % stmt], None))
    return out


def multi_super_family():
    """C03: predicates with two or three direct super-predicates that carry arguments; a fact and a goal of the predicate agree
    on its own argument while a constraint separates them on the argument inherited through the first / second / third
    super-predicate (bounds overlap, so they look unifiable when the goal is expanded): the goal must be activated, or be
    unified only with an atom whose arguments are all equal; (name, parts, True)"""
    out = []
    for nsup in (2, 3):
        for typ in ('int', 'real'):
            one = '1' if typ == 'int' else '1.0'
            ten = '10' if typ == 'int' else '10.0'
            zero = '0' if typ == 'int' else '0.0'
            for which in range(nsup):
                for form in ('geq1', 'neq', 'lt'):
                    for sub in (True, False):
                        sups = ['S%d' % i for i in range(nsup)]
                        L = ['predicate S%d(%s a%d) { }' % (i, typ, i) for i in range(nsup)]
                        L.append('predicate Prepared() { }')
                        L.append('predicate Visit(%s place) : %s { %s }' % (typ, ', '.join(sups), 'goal p = new Prepared();' if sub else ''))
                        L.append('fact v0 = new Visit(place:%s);' % one)
                        L.append('goal v1 = new Visit(place:%s);' % one)
                        for v in ('v0', 'v1'):
                            for i in range(nsup):
                                L.append('%s.a%d >= %s; %s.a%d <= %s;' % (v, i, zero, v, i, ten))
                        a = 'a%d' % which
                        L.append({'geq1': 'v1.%s >= v0.%s + %s;' % (a, a, one), 'neq': 'v1.%s != v0.%s;' % (a, a), 'lt': 'v1.%s < v0.%s;' % (a, a)}[form])
                        out.append(('fm_%d_%s_%d_%s_%s' % (nsup, typ, which, form, 'sub' if sub else 'leaf'), ['\n'.join(L) + '\n'], True))
    return out


def cardinality_family():
    """C01 / C02: n-ary exactly-one ('m0 ^ m1 ^ ... '), for n = 2..10 (pairwise and product encodings, arities that do and do
    not fill the product grid), with operands forced true / false before or after the statement, and object variables over
    n instances (the exactly-one of core::new_enum) with disequalities; (name, parts, solvable)"""
    out = []
    for n in range(2, 11):
        ms = ['m%d' % i for i in range(n)]
        decl = ''.join('bool %s;\n' % m for m in ms)
        xor = ' ^ '.join(ms) + ';\n'
        # nothing forced: exactly one must be true in the solution
        out.append(('fk_%d_free' % n, [decl + xor], True))
        for i in sorted({0, n // 2, n - 1}):
            out.append(('fk_%d_one_%d' % (n, i), [decl + xor + ms[i] + ';\n'], True))
            out.append(('fk_%d_one_first_%d' % (n, i), [decl + ms[i] + ';\n' + xor], True))
        for (i, j) in sorted({(0, n - 1), (n - 2, n - 1), (0, 1)}):
            if i != j:
                out.append(('fk_%d_two_%d_%d' % (n, i, j), [decl + xor + ms[i] + ';\n' + ms[j] + ';\n'], False))
                out.append(('fk_%d_two_first_%d_%d' % (n, i, j), [decl + ms[i] + ';\n' + ms[j] + ';\n' + xor], False))
        out.append(('fk_%d_allfalse' % n, [decl + xor + ''.join('!%s;\n' % m if False else '%s == false;\n' % m for m in ms)], False))
        out.append(('fk_%d_allbutone_false' % n, [decl + xor + ''.join('%s == false;\n' % m for m in ms[:-1])], True))
        # a disjunction that can only be met by making a second operand true
        if n >= 3:
            out.append(('fk_%d_search' % n, [decl + xor + '%s | %s;\n%s | %s;\n' % (ms[n - 1], ms[n - 2], ms[n - 2], ms[0]), ], True))
        # object variable over n instances
        objs = 'class K { }\n' + ''.join('K k%d = new K();\n' % i for i in range(n))
        out.append(('fk_%d_enum_neq' % n, [objs + 'K x;\n' + ''.join('x != k%d;\n' % i for i in range(n - 1))], True))
        out.append(('fk_%d_enum_none' % n, [objs + 'K x;\n' + ''.join('x != k%d;\n' % i for i in range(n))], False))
        out.append(('fk_%d_enum_two' % n, [objs + 'K x;\nK y;\nx == k%d;\ny == k%d;\nx == y;\n' % (n - 1, max(0, n - 2))], n == 1))
    return out


def exec_pressure_family():
    """C19: plans in which re-planning after a failure pulls a delayed atom towards earlier times: an atom P on one line; on a
    second line one of several alternatives (a long job Q, or a fallback R whose distance from P grows with P's lateness, or
    two short jobs). When Q fails during execution the fallback constraint presses P's start back; what the client delayed
    must stay delayed; (name, parts, True)"""
    out = []
    for k in (5, 7, 9):
        for pstart in (3, 4):
            for qdur in (10, 12):
                L = ['class Line : StateVariable {', '  predicate P() { duration >= 5.0; }', '  predicate Q() { duration >= %s; }' % f(qdur),
                     '  predicate R() { duration >= 3.0; }', '  predicate S() { duration >= 3.0; }', '}',
                     'Line l1 = new Line();', 'Line l2 = new Line();', 'goal p = new l1.P();', 'p.start >= %s;' % f(pstart),
                     '{ goal q = new l2.Q(); q.start >= 1.0; } or { goal r = new l2.R(); r.start >= 20.0; r.start - p.end >= p.start - %s; } or '
                     '{ goal s0 = new l2.S(); s0.start >= 20.0; goal s1 = new l2.S(); s1.start >= 30.0; }' % f(k)]
                out.append(('fe_line_%d_%d_%d' % (k, pstart, qdur), ['\n'.join(L) + '\n'], True))
    # a long atom A; next to it either a short job, or (dearer) a fallback whose start is tied to A's start through a window
    # that a free variable can widen: after the short job fails and the fallback is delayed, the window must widen - A has
    # started and must not move
    for lo, hi in ((6, 8), (4, 6)):
        L = ['predicate A() : Interval { duration >= 10.0; }', 'predicate B1() : Interval { duration >= 2.0; }',
             'predicate B3(real slack) : Interval { duration >= 3.0; slack >= 0.0; }', 'goal a = new A();',
             '{ goal b1 = new B1(); b1.start >= a.start + 4.0; } [1.0] or { goal b3 = new B3(); b3.start >= a.start + %s; b3.start <= a.start + %s + b3.slack; } [3.0]' % (f(lo), f(hi))]
        out.insert(0, ('fe_slack_%d_%d' % (lo, hi), ['\n'.join(L) + '\n'], True))
    # an atom that is over early (an impulse, or a short interval) tied to the start of a later interval through a margin that
    # a free variable can stretch: when the client delays the later start the margin must stretch - what has been executed
    # must not move (and must not be dispatched a second time)
    for kind in ('impulse', 'interval'):
        for s0 in (4, 6):
            for mode in ('fact', 'goal'):
                for host in ('class', 'top'):
                    early = 'predicate Ping() : Impulse { }' if kind == 'impulse' else 'predicate Ping() : Interval { duration >= 1.0; duration <= 1.0; }'
                    late = 'predicate Drive() : Interval { duration >= 2.0; }'
                    if host == 'class':
                        L = ['class Rover {', '  ' + early, '  ' + late, '}', 'Rover r = new Rover();',
                             '%s ping = new r.Ping();' % mode, 'goal drive = new r.Drive();']
                    else:
                        L = [early, late, '%s ping = new Ping();' % mode, 'goal drive = new Drive();']
                    t = 'ping.at' if kind == 'impulse' else 'ping.end'
                    L += ['drive.start >= %s;' % f(s0), 'real margin;', 'margin >= 0.0;', 'margin <= 10.0;',
                          '%s + margin >= drive.start - 1.0;' % t]
                    out.insert(0, ('fe_early_%s_%d_%s_%s' % (kind, s0, mode, host), ['\n'.join(L) + '\n'], True))
    # an atom A that starts at once; next to it a job G, or (dearer) a job H that needs A to start later: when G fails before it
    # has started, the only alternative contradicts what has been started - the executor must refuse (execution_exception) or
    # keep A where it started. Appended at the end: the selection of the plans above by position stays what it was
    for gs in (5, 7):
        for late in (3, 4):
            L = ['predicate A() : Interval { duration >= 6.0; }', 'predicate G() : Interval { duration >= 2.0; }', 'predicate H() : Interval { duration >= 2.0; }',
                 'goal a = new A();', '{ goal g = new G(); g.start >= %s; } [1.0] or { goal h = new H(); h.start >= %s; a.start >= %s; } [3.0]' % (f(gs), f(gs), f(late))]
            out.append(('fe_frozen_%d_%d' % (gs, late), ['\n'.join(L) + '\n'], True))
    # the same with the END of an atom that is over: A is short and starts at once, the cheap job B follows it at a distance
    # (the client may have delayed A's end once); when B fails, the next alternative D needs A to end much later - the executor
    # must refuse it, keep the end where it was, or fall back on the dear job C
    for gap in (3, 4):
        for ds in (20, 18):
            L = ['class Rover {', '  predicate A() : Interval { duration >= 2.0; }', '  predicate B() : Interval { duration >= 2.0; }',
                 '  predicate C() : Interval { duration >= 1.0; }', '  predicate D() : Interval { duration >= 1.0; }', '}', 'Rover ag = new Rover();',
                 'goal a = new ag.A();', 'a.start >= 1.0;', 'a.start <= 1.0;',
                 '{ goal b = new ag.B(); b.start >= a.end + %s; } or { goal d = new ag.D(); d.start >= %s; a.end >= d.start; } [5.0] or { goal c = new ag.C(); c.start >= 15.0; } [10.0]' % (f(gap), f(ds))]
            out.append(('fe_endfrozen_%d_%d' % (gap, ds), ['\n'.join(L) + '\n'], True))
    return out


def inactive_family():
    """C04 / C05: timelines with atoms that stay OUT of the plan (in the branch of a disjunction that is not chosen) but share a
    variable with a later decision: an atom a fixed on the timeline, a second one b that a decision puts on top of it (or far
    away, dearer), a third one c in a branch that is not taken whose start is a variable x, and a last disjunction over x. The
    change of x wakes the listeners of c although it is not active; the overlap of a and b must still be repaired.
    (name, parts, None)"""
    out = []
    for host in ('rr', 'sv'):
        for (bs, xs, order) in itertools.product((5, 8), ((5, 7), (2, 12)), ('abcx', 'axbc', 'cabx')):
            if host == 'rr':
                head = ['ReusableResource r = new ReusableResource(1.0);']
                new = lambda args: 'new r.Use(%samount: 1.0)' % ((args + ', ') if args else '')
            else:
                head = ['class Dock : StateVariable { predicate Busy() { } }', 'Dock r = new Dock();']
                new = lambda args: 'new r.Busy(%s)' % args
            A = 'fact a = %s;' % new('start: 0.0, end: 10.0')
            B = ('{ fact b = %s; b.start >= %s; b.duration == 10.0; } [5.0] or { fact b = %s; } [50.0]'
                 % (new(''), f(bs), new('start: 40.0, end: 50.0')))
            C = '{ x <= 1000.0; } [0.0] or { goal c = %s; c.duration == 1.0; } [20.0]' % new('start: x')
            X = '{ x >= %s; } [0.0] or { x >= %s; } [1.0]' % (f(xs[0]), f(xs[1]))
            body = {'a': A, 'b': B, 'c': C, 'x': X}
            L = head + ['real x;'] + [body[k] for k in order]
            out.append(('fn_%s_%d_%d_%s' % (host, bs, xs[0], order), ['\n'.join(L) + '\n'], None))
    return out


def unify_family():
    """C02 / C03 / C01: goals that can only be achieved by unifying with a fact (their own rule cannot be applied): the
    parameters of both atoms are ranged variables (or constants), of type real, int or tp; the problem has a solution
    exactly when the ranges meet; every pair of ranges in both roles. (name, parts, solvable)"""
    out = []
    ranges = [((0, 5), (3, 10)), ((0, 2), (3, 5)), ((0, 3), (3, 5)), ((0, 10), (3, 5)), ((2, 2), (0, 5)), ((4, 4), (4, 4)), ((1, 1), (2, 2))]
    ranges = ranges + [(b, a) for (a, b) in ranges if a != b]
    for ptype in ('real', 'int', 'tp'):
        num = (lambda v: str(v)) if ptype == 'int' else f
        big = '100' if ptype == 'int' else '100.0'
        for k, ((a, b), (c, d)) in enumerate(ranges):
            for two in (False, True):
                ok = max(a, c) <= min(b, d)
                L = ['predicate P(%s x%s) { x >= %s; }' % (ptype, (', %s y' % ptype) if two else '', big)]

                def decl(nm, lo, hi):
                    if lo == hi and k % 2 == 0 and ptype != 'tp':
                        return [], num(lo)          # a constant argument
                    return ['%s %s;' % (ptype, nm), '%s >= %s;' % (nm, num(lo)), '%s <= %s;' % (nm, num(hi))], nm
                d1, a1 = decl('lo', a, b)
                d2, a2 = decl('hi', c, d)
                L += d1 + d2
                if two:        # the second parameter always meets
                    L += ['%s w; w >= %s; w <= %s;' % (ptype, num(0), num(9)), '%s z; z >= %s; z <= %s;' % (ptype, num(9), num(12))]
                L.append('fact f0 = new P(x:%s%s);' % (a1, ', y:w' if two else ''))
                L.append('goal g0 = new P(x:%s%s);' % (a2, ', y:z' if two else ''))
                out.append(('fu_%s_%d%s' % (ptype, k, '_2' if two else ''), ['\n'.join(L) + '\n'], ok))
    return out


def strict_tie_family():
    """C01: a strict relation that is created AFTER a propagation in which a non-strict bound with the same constant became
    known (inside the rule of a goal, in a part read after a solve, in a disjunct): the solution must lie strictly beyond the
    bound; both directions, over one variable and over a difference; (name, parts, True)"""
    out = []
    for op, nonstrict in (('>', '>='), ('<', '<=')):
        for shape in ('one', 'diff'):
            decl = 'real x;' if shape == 'one' else 'real x; real y;'
            lhs = 'x' if shape == 'one' else 'x - y'
            bound = '%s %s 5.0;' % (lhs, nonstrict)
            box = ('x >= -50.0; x <= 50.0;' if shape == 'one' else 'x >= -50.0; x <= 50.0; y >= -50.0; y <= 50.0;')
            params = '(real v)' if shape == 'one' else '(real v, real w)'
            body = 'v %s 5.0;' % op if shape == 'one' else 'v - w %s 5.0;' % op
            args = 'v:x' if shape == 'one' else 'v:x, w:y'
            head = '%s %s %s' % (decl, box, bound)
            out.append(('fq_%s_%s_rule' % ('gt' if op == '>' else 'lt', shape), [head + '\npredicate P%s { %s }\ngoal g = new P(%s);\n' % (params, body, args)], True))
            out.append(('fq_%s_%s_then' % ('gt' if op == '>' else 'lt', shape), [head + '\n', '%s %s 5.0;\n' % (lhs, op)], True))
            out.append(('fq_%s_%s_disj' % ('gt' if op == '>' else 'lt', shape), [head + '\n{ %s %s 5.0; } or { %s %s 5.0; %s %s 6.0; }\n' % (lhs, op, lhs, op, lhs, nonstrict if op == '<' else '<=')], True))
    return out


def coef_sign_family():
    """C01 / C02: linear constraints over the same variables whose expressions differ only in the sign (or only in the
    magnitude) of one non-unit coefficient - 'x + 2*y' next to 'x - 2*y', 'x + y - 3*z' next to 'x + y + 3*z', '2*x - 0.5*y'
    next to '2*x + 0.5*y' - so that expressions which must NOT share a slack variable or an assertion meet in one network.
    Each program is built around a known point: the constraints are tight at it and one more bound leaves it as the only
    solution, so both a wrong 'solution' and a wrong 'unsolvable' show. Contexts: top level, the rule of a goal, a disjunct, a
    part read after a solve. (name, parts, True)"""
    out = []
    pt = {'x': 6, 'y': 1, 'z': 2}
    def num(c):
        return ('%d.0' % c) if c == int(c) else repr(float(c))
    def expr(cs):               # cs: list of (coefficient, variable); the first term is written plain
        t = []
        for i, (c, v) in enumerate(cs):
            a = abs(c)
            term = v if a == 1 else '%s*%s' % (num(a), v)
            t.append(('-' if c < 0 else '') + term if i == 0 else (' - ' if c < 0 else ' + ') + term)
        return ''.join(t)
    def val(cs):
        return sum(c * pt[v] for c, v in cs)
    shapes = [('s2', [(1, 'x'), (2, 'y')], 1), ('s3', [(1, 'x'), (3, 'y')], 1), ('sh', [(2, 'x'), (0.5, 'y')], 1),
              ('t3', [(1, 'x'), (1, 'y'), (3, 'z')], 2), ('tm', [(1, 'x'), (2, 'y'), (1, 'z')], 1), ('n2', [(-1, 'x'), (2, 'y')], 1)]
    for nm, cs, k in shapes:
        neg = [(-c if i == k else c, v) for i, (c, v) in enumerate(cs)]
        vs = sorted({v for c, v in cs})
        decl = ' '.join('real %s;' % v for v in vs) + ' ' + ' '.join('%s >= -50.0; %s <= 50.0;' % (v, v) for v in vs)
        fv = cs[k][1]
        # plus-form bounded above, minus-form bounded below (both tight at the point), the flipped variable bounded below at
        # its value, the others fixed: the point is the only solution
        c1 = '%s <= %s;' % (expr(cs), num(val(cs)))
        c2 = '%s >= %s;' % (expr(neg), num(val(neg)))
        fix = ' '.join('%s == %s;' % (v, num(pt[v])) for v in vs if v != fv and v != cs[0][1]) + ' %s >= %s;' % (fv, num(pt[fv]))
        params = '(' + ', '.join('real p%s' % v for v in vs) + ')'
        args = ', '.join('p%s:%s' % (v, v) for v in vs)
        body = c2
        for v in vs:
            body = re.sub(r'\b%s\b' % v, 'p' + v, body)
        for order in (0, 1):
            a, b = (c1, c2) if order == 0 else (c2, c1)
            out.append(('fg_%s_top%d' % (nm, order), ['%s\n%s\n%s\n%s\n' % (decl, a, b, fix)], True))
        out.append(('fg_%s_rule' % nm, ['%s\n%s\n%s\npredicate P%s { %s }\ngoal g = new P(%s);\n' % (decl, c1, fix, params, body, args)], True))
        out.append(('fg_%s_then' % nm, ['%s\n%s\n%s\n' % (decl, c1, fix), '%s\n' % c2], True))
        out.append(('fg_%s_disj' % nm, ['%s\n%s\n%s\n{ %s } or { %s %s <= -60.0; }\n' % (decl, c1, fix, c2, c2, cs[0][1])], True))
        # equalities: the two forms as equations determine the pair
        e1 = '%s == %s;' % (expr(cs), num(val(cs)))
        e2 = '%s == %s;' % (expr(neg), num(val(neg)))
        fixe = ' '.join('%s == %s;' % (v, num(pt[v])) for v in vs if v != fv and v != cs[0][1])
        out.append(('fg_%s_eq' % nm, ['%s\n%s\n%s\n%s\n' % (decl, e1, e2, fixe)], True))
    return out


EXTRA_EXPECT = {}     # name -> [(variable, lower bound)]: constraints of rules of goals that are in the plan (checked as sentinels)


def deep_chain_family():
    """C03: a goal of a predicate whose rule sits two or three levels up the chain of super-predicates (the intermediate
    predicates with or without bodies of their own): the rule must be applied - its constraint holds on the goal's argument
    and its sub-goal is achieved; (name, parts, True) + EXTRA_EXPECT"""
    out = []
    for depth in (2, 3):
        for mids in ('empty', 'body'):
            for host in ('top', 'class'):
                P = ['predicate Leaf(real k) { k >= 0.0; }', 'predicate Base(real n) { n >= 1.0; goal l = new Leaf(k:n); }']
                prev = 'Base'
                for d in range(1, depth + 1):
                    body = ' n <= 100.0; ' if mids == 'body' else ' '
                    P.append('predicate M%d() : %s {%s}' % (d, prev, body))
                    prev = 'M%d' % d
                if host == 'class':
                    L = ['class Box {'] + ['  ' + x for x in P] + ['}', 'Box bx = new Box();', 'real v; v >= -5.0; v <= 5.0;', 'goal t = new bx.%s(n:v);' % prev]
                else:
                    L = P + ['real v; v >= -5.0; v <= 5.0;', 'goal t = new %s(n:v);' % prev]
                name = 'fd_%d_%s_%s' % (depth, mids, host)
                EXTRA_EXPECT[name] = [('v', 1)]
                out.append((name, ['\n'.join(L) + '\n'], True))
    return out


def enum_member_family():
    """C02: a numeric member read through an object variable with three candidates that hold different values, in every
    order of creation (the helper bounds of the derived variable are the minimum / maximum over the candidates): a
    constraint that only the largest / smallest value satisfies; int and real; (name, parts, True)"""
    out = []
    vals = {'a': 5, 'b': 3, 'c': 4}
    for typ in ('int', 'real'):
        num = (lambda v: str(v)) if typ == 'int' else f
        for k, order in enumerate(itertools.permutations('abc')):
            for side in ('max', 'min'):
                L = ['class Loc { %s x; Loc(%s x) : x(x) {} }' % (typ, typ)]
                L += ['Loc %s = new Loc(%s);' % (o, num(vals[o])) for o in order]
                L += ['Loc l;', 'l.x >= %s;' % num(5) if side == 'max' else 'l.x <= %s;' % num(3)]
                out.append(('fm_%s_%d_%s' % (typ, k, side), ['\n'.join(L) + '\n'], True))
    return out


def subclass_family():
    """C04 / C05: smart types reached through one, two or three levels of user classes, with predicates declared at different
    levels (for resources: own predicates extending Use); the atoms compete for the instance whatever the depth;
    (name, parts, None)"""
    out = []
    for depth in (1, 2, 3):
        # reusable resources
        L = ['class M1 : ReusableResource { M1(real cap) : ReusableResource(cap) {} predicate Op1(real id) : Use { duration >= 1.0; } }']
        for d in range(2, depth + 1):
            L.append('class M%d : M%d { M%d(real cap) : M%d(cap) {} predicate Op%d(real id) : Use { duration >= 1.0; } }' % (d, d - 1, d, d - 1, d))
        for cap, amounts in ((10, (4, 4, 4)), (5, (4, 4, 4)), (5, (3, 2, 4))):
            for preds in ('leaf', 'mixed', 'use'):
                P = list(L) + ['M%d m = new M%d(%s);' % (depth, depth, f(cap))]
                for i, a in enumerate(amounts):
                    if preds == 'use':
                        P.append('fact t%d = new m.Use(amount:%s, duration:2.0);' % (i, f(a)))
                    else:
                        lvl = depth if preds == 'leaf' else 1 + (i % depth)
                        P.append('fact t%d = new m.Op%d(id:%s, amount:%s, duration:2.0);' % (i, lvl, f(i), f(a)))
                P.append('horizon >= 10.0;')
                out.append(('fs_rr_d%d_c%d_%s_%d' % (depth, cap, preds, len(out)), ['\n'.join(P) + '\n'], None))
        # state variables
        S = ['class S1 : StateVariable { predicate A1(real id) { duration >= 2.0; } }']
        for d in range(2, depth + 1):
            S.append('class S%d : S%d { predicate A%d(real id) { duration >= 2.0; } }' % (d, d - 1, d))
        for mode in ('fact', 'goal'):
            P = list(S) + ['S%d s = new S%d();' % (depth, depth)]
            for i in range(3):
                P.append('%s a%d = new s.A%d(id:%s);' % (mode, i, 1 + (i % depth), f(i)))
            P.append('horizon >= 10.0;')
            out.append(('fs_sv_d%d_%s' % (depth, mode), ['\n'.join(P) + '\n'], None))
    return out


def impossible_family():
    """C01 / C03: problems that have no solution by construction because the rule of a goal that must be achieved cannot be
    applied (a later statement of its body is inconsistent): a parameter of the wrong subtype, an unsatisfiable constraint, a
    sub-goal whose own rule is inapplicable; with and without an alternative; (name, parts, solvable)"""
    out = []
    head = 'class Vehicle {}\nclass Truck : Vehicle {}\nclass Van : Vehicle {}\nTruck truck = new Truck();\nVan van = new Van();\npredicate Loaded(Vehicle v) {}\npredicate Drive(Truck t) {}\npredicate Carry(Vehicle v) {}\n'
    bodies = {
        'wrong_subtype': 'goal l = new Loaded(v:v); goal d = new Drive(t:v);',
        'wrong_subtype_first': 'goal d = new Drive(t:v); goal l = new Loaded(v:v);',
        'false_constraint': 'goal l = new Loaded(v:v); real z; z >= 1.0; z <= 0.0;',
        'nested': 'goal l = new Loaded(v:v); goal n = new Inner(v:v);',
    }
    for bn, body in bodies.items():
        for alt in (False, True):
            for arg, ok_arg in (('van', False), ('truck', True)):
                L = [head, 'predicate Inner(Vehicle v) { goal d = new Drive(t:v); }']
                if alt:
                    L.append('predicate Deliver(Vehicle v) { { %s } or { goal c = new Carry(v:v); } }' % body)
                else:
                    L.append('predicate Deliver(Vehicle v) { %s }' % body)
                L.append('fact lt = new Loaded(v:truck);')
                L.append('goal dlv = new Deliver(v:%s);' % arg)
                solvable = alt or (ok_arg and bn != 'false_constraint')
                out.append(('fz_%s_%s_%s' % (bn, 'alt' if alt else 'only', arg), ['\n'.join(L) + '\n'], solvable))
    return out
