"""C10 - difference logic: distances are exact and conflicts mean a negative cycle."""
import netcheck

PROP = 'C10'


def run(tier, seed):
    return netcheck.run_net(PROP, tier, seed,
        profiles=[('idl', 100, 1200, 45), ('rdl', 100, 1200, 45), ('mix', 20, 200, 40), ('dlrel', 30, 600, 25)],
        rule='(1) every transition of the state graph of the implementation-shaped model DiffLogicImpl (spec/DiffLogicGen.tla prints one test per transition: shortest history to the source state + the action) replayed on idl_theory and rdl_theory, the reported distance matrix compared with the model after every level episode, pop and conflict backjump; (2) seeded sets of difference constraints over 1-3 time points plus the origin (several constraints on the same pair, '
             'initial matrix of 2 so that it grows, integer and half-integer weights with infinitesimals) asserted, negated and '
             'retracted in random orders; after every successful propagation the reported matrix equals the Floyd-Warshall '
             'closure of the currently asserted constraints (negated ones included), no undecided constraint is decided by the '
             'distances, every learnt clause holds in every model, false answers require a negative cycle; '
             'distinct_nontrivial = distinct executions that assume at least one distance literal',
        models=[('MC_DiffLogicImpl', 'MC_DiffLogicImpl_quick.cfg', 'MC_DiffLogicImpl.cfg',
                 'implementation-shaped model of idl_theory (incremental update, predecessors, enforcing constraints, first-write-wins undo layers): DistExact, ConflictIffNegCycle, ExplanationsValid, PopRestores* over all assert / negate / push / pop histories', None)],
        dlimpl=(False, True, (False, 'DiffLogicGen_idl_chain.cfg'), (True, 'DiffLogicGen_rdl_chain.cfg'), (False, 'DiffLogicGen_idl_undo.cfg'), (True, 'DiffLogicGen_rdl_undo.cfg'), (False, 'DiffLogicGen_idl_sim.cfg'), (True, 'DiffLogicGen_rdl_sim.cfg'), (False, 'DiffLogicGen_idl_tie.cfg'), (True, 'DiffLogicGen_rdl_tie.cfg')),
        assumptions=['at most 6 theory atoms per execution'])


def replay(path):
    return netcheck.replay(PROP, path)
