"""C13 - reified boolean constructs are equivalent to the formula they stand for."""
import netcheck

PROP = 'C13'


def run(tier, seed):
    return netcheck.run_net(PROP, tier, seed,
        profiles=[('reify', 150, 1500, 12), ('sat', 60, 600, 25), ('ov', 60, 600, 30)],
        rule='seeded histories of new_eq / new_conj / new_disj / new_at_most_one / new_exct_one calls (argument lists of '
             'length 0-7 with duplicates, complementary pairs, constants, root-assigned arguments, repeated requests) on the '
             'real sat_core; every emitted clause is captured by the hook and the returned literal is compared with the '
             'formula in every model (enumeration); equality literals between object variables (profile ov: overlapping / nested / disjoint domains, variables derived from another one that share its literals) true exactly when both take the same value; plus the expression cache on networks with thousands of variables (profile cache: every pair and a third of the triples of 22 plain variables for every constructor, seeded requests with negated / repeated arguments): CacheTrace requires that a literal answered for two requests stands for equivalent formulas (truth table over their variables) and that constant / argument answers are equivalent to the request; distinct_nontrivial = distinct executions containing a constructor call',
        cache=(8, 40),
        assumptions=['at most 11 propositional variables per execution (model enumeration)',
                     'for at-most-one / exactly-one every occurrence of a repeated argument counts (the truth table of the RIDDLE operator)'])


def replay(path):
    return netcheck.replay(PROP, path)
