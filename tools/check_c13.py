"""C13 - reified boolean constructs are equivalent to the formula they stand for."""
import netcheck

PROP = 'C13'


def run(tier, seed):
    return netcheck.run_net(PROP, tier, seed,
        profiles=[('reify', 150, 1500, 12), ('sat', 60, 600, 25), ('ov', 60, 600, 30)],
        rule='(0) every transition of the state graph of the implementation-shaped model ReifyImpl (the constructors as written: sort, constant folding, repeated / complementary arguments, expression cache, defining clauses, recursive cases and product encoding of the cardinality constructors; spec/ReifyGen.tla prints one test per transition) replayed on the real sat_core: literal returned, number of variables and value of every variable compared with the model after every call; deviating executions are decided by NetworkTrace; '
             'seeded histories of new_eq / new_conj / new_disj / new_at_most_one / new_exct_one calls (argument lists of '
             'length 0-7 with duplicates, complementary pairs, constants, root-assigned arguments, repeated requests) on the '
             'real sat_core; every emitted clause is captured by the hook and the returned literal is compared with the '
             'formula in every model (enumeration); equality literals between object variables (profile ov: overlapping / nested / disjoint domains, variables derived from another one that share its literals) true exactly when both take the same value; plus the expression cache on networks with thousands of variables (profile cache: every pair and a third of the triples of 22 plain variables for every constructor, seeded requests with negated / repeated arguments): CacheTrace requires that a literal answered for two requests stands for equivalent formulas (truth table over their variables) and that constant / argument answers are equivalent to the request; distinct_nontrivial = distinct executions containing a constructor call',
        models=[('MC_ReifyImpl', 'MC_ReifyImpl_A1.cfg', 'MC_ReifyImpl_A.cfg',
                 'implementation-shaped model of new_eq / new_conj / new_disj / new_at_most_one / new_exct_one with new_clause and root-level propagation: ReifiedMeaning, CacheSound, Conservative (a request constrains nothing that existed), NotExcluding over every argument sequence of length <= 3 over 2-3 variables and the constants under every root assignment', None),
                ('MC_ReifyImpl', 'MC_ReifyImpl_B0.cfg', 'MC_ReifyImpl_B.cfg',
                 'the same model, two constructor calls in a row with unit clauses and propagation in between (cache hits after the values changed, the literal returned as an argument of the next call)', None),
                ('MC_ReifyImpl', 'MC_ReifyImpl_C2.cfg', 'MC_ReifyImpl_C.cfg',
                 'the same model, four to six arguments: the product encoding of at-most-one with its row / column variables, exactly-one on top of it, repeated and complementary arguments among them', None),
                ('MC_ReifyImpl', 'MC_ReifyImpl_D.cfg', 'MC_ReifyImpl_D.cfg',
                 'the same model, a cardinality constraint and then the same one with one more argument that is repeated, complementary or decided at root level by a unit clause in between: the cache entry of the smaller constraint must not answer the larger request', None)],
        reifyimpl=(['ReifyGen_A1.cfg', 'ReifyGen_B0.cfg', 'ReifyGen_C2.cfg', 'ReifyGen_D.cfg'], ['ReifyGen_A.cfg', 'ReifyGen_B1.cfg', 'ReifyGen_C.cfg', 'ReifyGen_C2.cfg', 'ReifyGen_D.cfg']),
        cache=(8, 40),
        assumptions=['at most 11 propositional variables per execution (model enumeration)',
                     'for at-most-one / exactly-one every occurrence of a repeated argument counts (the truth table of the RIDDLE operator)'])


def replay(path):
    return netcheck.replay(PROP, path)
