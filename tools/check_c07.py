"""C07 - the constraint network only infers what is entailed."""
import netcheck

PROP = 'C07'


def run(tier, seed):
    return netcheck.run_net(PROP, tier, seed,
        profiles=[('sat', 80, 800, 45), ('reify', 30, 300, 30), ('mix', 40, 500, 40), ('lra', 30, 400, 40),
                  ('idl', 30, 400, 40), ('rdl', 30, 400, 40), ('ov', 20, 200, 30)],
        rule='seeded API histories (new_var / new_clause / reified constructors / theory literals / assume / propagate / '
             'next / check / pop / simplify_db) on the real sat_core with LRA, IDL, RDL and OV theories attached; after '
             'every call each reported truth value must hold in every model of clauses /\\ theories /\\ standing decisions, '
             'every learnt clause (conflict analysis, theory lemma) must hold in every model, a false answer requires '
             'unsatisfiability, a complete assignment must be a model; distinct_nontrivial = distinct executions in which '
             'at least one clause was learnt',
        assumptions=['at most 11 propositional variables and 6 theory atoms per execution (model enumeration, Fourier-Motzkin)',
                     'documented preconditions respected: creation at root level, empty queue before assume/check/next, '
                     'no use after a root-level inconsistency'])


def replay(path):
    return netcheck.replay(PROP, path)
