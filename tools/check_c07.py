"""C07 - the constraint network only infers what is entailed."""
import netcheck

PROP = 'C07'


def run(tier, seed):
    return netcheck.run_net(PROP, tier, seed,
        profiles=[('sat', 80, 800, 45), ('reify', 30, 300, 30), ('mix', 40, 500, 40), ('lra', 30, 400, 40),
                  ('idl', 30, 400, 40), ('rdl', 30, 400, 40), ('ov', 20, 200, 30)],
        rule='(0) every transition of the state graph of the implementation-shaped model SatCoreImpl (spec/SatCoreGen.tla prints one test per transition) replayed on the real sat_core: answer, value of every variable and decision level compared with the model after every call; deviating executions are decided by NetworkTrace; seeded API histories (new_var / new_clause / reified constructors / theory literals / assume / propagate / '
             'next / check / pop / simplify_db) on the real sat_core with LRA, IDL, RDL and OV theories attached; after '
             'every call each reported truth value must hold in every model of clauses /\\ theories /\\ standing decisions, '
             'every learnt clause (conflict analysis, theory lemma) must hold in every model, a false answer requires '
             'unsatisfiability, a complete assignment must be a model; distinct_nontrivial = distinct executions in which '
             'at least one clause was learnt',
        models=[('MC_SatCoreImpl', 'MC_SatCoreImpl_A1.cfg', 'MC_SatCoreImpl_A.cfg',
                 'implementation-shaped model of sat_core / clause (literal order inside clauses, ordered watch lists, trail, levels, reasons, queue; new_clause, assume, pop, next, propagate with first-UIP analysis and record, simplify_db): WatchInv, PropagationComplete, AssignedEntailed, DatabaseEntailed, DeadOnlyIfUnsat, CompleteIsModel, TrailInv, ReasonHeadInv over all call histories on a fixed clause pool', None)],
        satimpl=(['SatCoreGen_A1.cfg', 'SatCoreGen_B.cfg', 'SatCoreGen_C.cfg', 'SatCoreGen_Asim.cfg'], ['SatCoreGen_A.cfg', 'SatCoreGen_B.cfg', 'SatCoreGen_C.cfg', 'SatCoreGen_Asim.cfg']),
        assumptions=['at most 11 propositional variables and 6 theory atoms per execution (model enumeration, Fourier-Motzkin)',
                     'documented preconditions respected: creation at root level, empty queue before assume/check/next, '
                     'no use after a root-level inconsistency'])


def replay(path):
    return netcheck.replay(PROP, path)
