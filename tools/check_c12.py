"""C12 - difference-logic relation literals and expression queries mean what they say."""
import netcheck

PROP = 'C12'


def run(tier, seed):
    return netcheck.run_net(PROP, tier, seed,
        profiles=[('idl', 150, 1500, 40), ('rdl', 150, 1500, 40), ('dlrel', 50, 1200, 25)],
        rule='seeded requests of the five relations between expressions c*x + k and c*(x - y) + k (c in {1,-1,2,-2}, both '
             'variable orders, constants on either side) and bounds / distance / equates queries, on networks in random '
             'consistent states (profile dlrel: constraints asserted and propagated at root level first, then 8-14 relation requests / queries, equalities preferred); in every model the returned literal is true only if the asserted difference constraints '
             'entail the relation and false only if they entail its negation (Fourier-Motzkin; integer tightening for IDL); '
             'query answers equal the values computed from the logged variable-level matrix, and that matrix is the exact closure of the relations whose literal is true and of the negations of those whose literal is false (a literal made false enforces the negation of its relation); distinct_nontrivial = distinct '
             'executions with a relation request or an expression query',
        assumptions=['at most 6 theory atoms per execution', 'integer theory: constants divisible by the leading coefficient'])


def replay(path):
    return netcheck.replay(PROP, path)
