"""Shared pieces of the RIDDLE-level checks (C16 - C18): lexer / parser cases through riddle_driver and LexTrace.tla."""
import json
import os
import vlib


def lexgen(rd, n):
    out = os.path.join(rd, 'lexgen%d.ndjson' % n)
    r = vlib.tlc('LexGen', 'LexGen.cfg', env={'GEN_OUT': out, 'GEN_LEN': str(n)}, workers=4, timeout=1500, xmx='8g')
    if not os.path.exists(out) or 'GENERATED' not in r['out']:
        raise vlib.CheckError('LexGen failed:\n' + r['out'][-3000:])
    return out, r


def run_cases(drv, mode, cases, out, max_restarts=400):
    """runs riddle_driver over all cases, restarting it after every case on which it hung or crashed"""
    if os.path.exists(out):
        os.remove(out)
    first, restarts = 0, 0
    while True:
        rc, o = vlib.run([drv, mode, cases, out, str(first)], timeout=1200, check=False)
        lines = vlib.read_lines(out)
        if rc == 0:
            return lines, restarts
        if not lines:
            raise vlib.CheckError('riddle_driver failed without output: rc=%d %s' % (rc, o[-500:]))
        first = json.loads(lines[-1])['i'] + 1
        restarts += 1
        if restarts > max_restarts:
            return lines, restarts


def signature(ev, exec_lines, idx, r=None):
    contract = r['contracts'][-1][0] if r and r.get('contracts') else 'Structure'
    if ev.get('e') == 'lex':
        txt = ''.join(ev['input'])
        cls = ('string' if '"' in txt else 'comment' if '/*' in txt or '//' in txt else 'number' if any(c.isdigit() for c in txt)
               else 'word' if any(c.isalpha() for c in txt) else 'operator')
        return 'lex:%s:%s:%s' % (contract, cls, ev.get('status'))
    return 'parse:%s:%s:%s' % (contract, ev.get('name', '?').split('_')[0], ev.get('status'))
