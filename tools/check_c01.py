"""C01 - a reported solution satisfies every constraint the problem asserts."""
import gen_problems
import plancheck

PROP = 'C01'


def make(rd, tier, seed, ev):
    shapes, r = gen_problems.plangen_shapes(2, rd)
    ev.add_model(r, 'PlanGen: enumeration of all small timeline problems with their feasibility verdicts')
    pick = gen_problems.sample_shapes(shapes, 120 if tier == 'quick' else 1500, seed)
    named = [(gen_problems.shape_name(s), gen_problems.render_timeline(s)) for s in pick]
    named += [(n, t) for n, t, ok in gen_problems.causal_family()] + [(n, t) for n, t, ok in gen_problems.temporal_family()]
    gen = plancheck.write_problems(rd, named) + plancheck.feature_problems(rd, ['timeline', 'inheritance', 'tp', 'causal', 'incremental', 'cardinality', 'multisuper', 'impossible', 'subclass', 'unify', 'inactive', 'stricttie', 'coefsign'], seed, tier)[0]
    repo = plancheck.repo_problems()
    if tier == 'quick':
        repo = [p for p in repo if not p[0].startswith(('GOAC', 'Matera'))] + [p for p in repo if p[0] in ('GOAC_2Pic_2Wind', 'GOAC_4Pic_3Wind', 'Matera_05', 'Matera_15')]
    ev.sample({'generated_problem': gen[0][0], 'text': open(gen[0][1][0]).read()})
    return plancheck.remember(gen + repo), None


def run(tier, seed):
    return plancheck.run_plan(PROP, tier, seed,
        rule='all repository examples plus generated timeline, causal and temporal families and the feature-cross families of tools/gen_features.py (strict / non-strict temporal relations between atoms of one timeline, constant / variable / time-dependent capacities, predicate inheritance chains, time-point variables with windows and separations at top level and inside rules, mutual recursion with unification, shuffled statement order, incremental reading with a solve in between), solved in several build '
             'configurations (h_max / h_add x CHECK_INCONSISTENCIES off / on x Debug / RelWithDebInfo); hooks record every clause '
             'given to the network, every guarded fact, every reified / arithmetic / difference literal definition and every '
             'RIDDLE operator translation; on each reported solution PlanTrace checks that no clause is falsified or left unit, '
             'every guarded fact with a true guard is true, every defined literal agrees (Kleene) with its definition evaluated '
             'in exact arithmetic on the reported values, and every operator result equals the operator applied to the values '
             'of its arguments; distinct_nontrivial = (configuration, problem) pairs with a reported solution and asserted facts',
        assumptions=['time-point (tp) values are the earliest times, which is the solution the library exposes',
                     'solutions with numbers too wide for 32-bit TLC integers are skipped and counted',
                     'solver runs exceeding the time budget are excluded and counted'],
        make_problems=make, configs_quick=['dbg_exec', 'rel_exec_hadd_ci'], configs_thorough=plancheck.ALL_CONFIGS,
        stat_key='with_asserts')


def replay(path):
    return plancheck.replay_problem(PROP, path)
