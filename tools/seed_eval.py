#!/usr/bin/env python3
"""Evaluates one seeded change produced in a scratch worktree:

  seed_eval.py confirm <worktree> <Cxx> <name>      verifies the claims (tests pass with the change, demonstration fails with
                                                    it and passes without it) and stores it as /verif/seeded/<name>/
  seed_eval.py detect <name> [<Cyy> ...]            applies seeded/<name>/patch.diff to /repo, runs the quick checks of its
                                                    property (and of the extra ones given), records the outcome, undoes the patch
"""
import json
import os
import shutil
import subprocess
import sys
import time

V = os.path.dirname(os.path.dirname(os.path.abspath(__file__)))
REPO = '/repo'


def sh(cmd, cwd=None, timeout=3600):
    p = subprocess.run(cmd, shell=True, cwd=cwd, stdout=subprocess.PIPE, stderr=subprocess.STDOUT, text=True, timeout=timeout)
    return p.returncode, p.stdout


def confirm(wt, prop, name):
    sd = os.path.join(wt, 'SEEDED')
    assert os.path.exists(os.path.join(sd, 'patch.diff')), 'no patch.diff'
    log = {}
    # 1. with the change: builds and the 82 tests pass
    rc, out = sh('cmake -G Ninja -S . -B _build -DCMAKE_BUILD_TYPE=RelWithDebInfo >/dev/null && cmake --build _build 2>&1 | tail -2 && ctest --test-dir _build -j8 2>&1 | tail -3', cwd=wt)
    log['tests_with_change'] = out.strip().splitlines()[-3:]
    ok_tests = '100% tests passed' in out
    # 2. demonstration fails with the change
    rc1, out1 = sh('bash SEEDED/run_demo.sh', cwd=wt, timeout=1800)
    log['demo_with_change'] = {'rc': rc1, 'tail': out1.strip().splitlines()[-6:]}
    # 3. without the change the demonstration passes
    rcr, outr = sh('git apply -R SEEDED/patch.diff && cmake --build _build 2>&1 | tail -1', cwd=wt)
    rc2, out2 = sh('bash SEEDED/run_demo.sh', cwd=wt, timeout=1800)
    log['demo_without_change'] = {'rc': rc2, 'tail': out2.strip().splitlines()[-6:]}
    sh('git apply SEEDED/patch.diff && cmake --build _build 2>&1 | tail -1', cwd=wt)
    confirmed = ok_tests and rc1 != 0 and rc2 == 0 and rcr == 0
    print(json.dumps(log, indent=1))
    print('CONFIRMED' if confirmed else 'NOT CONFIRMED')
    if not confirmed:
        return 1
    dst = os.path.join(V, 'seeded', name)
    shutil.rmtree(dst, ignore_errors=True)
    os.makedirs(dst)
    for f in os.listdir(sd):
        p = os.path.join(sd, f)
        if os.path.isfile(p) and os.path.getsize(p) < 400000:
            shutil.copy(p, dst)
    notes = open(os.path.join(sd, 'NOTES.md')).read() if os.path.exists(os.path.join(sd, 'NOTES.md')) else ''
    meta = {'name': name, 'property': prop, 'needs_to_manifest': '(see NOTES.md)', 'confirmed': {
        'tests_pass_with_change': ok_tests, 'demo_rc_with_change': rc1, 'demo_rc_without_change': rc2,
        'how': 'tools/seed_eval.py confirm: built the worktree with the change, ran the 82 ctest tests, ran run_demo.sh with the change (non-zero) and with the patch reversed (zero)'},
        'files_changed': [l[6:] for l in open(os.path.join(sd, 'patch.diff')) if l.startswith('+++ b/')],
        'notes_head': notes[:1500], 'detected_by': {}}
    json.dump(meta, open(os.path.join(dst, 'meta.json'), 'w'), indent=1)
    return 0


def detect(name, extra):
    dst = os.path.join(V, 'seeded', name)
    meta = json.load(open(os.path.join(dst, 'meta.json')))
    props = [meta['property']] + [p for p in extra if p != meta['property']]
    rc, out = sh('git status --porcelain --untracked-files=no', cwd=REPO)
    assert out.strip() == '', '/repo is not clean: ' + out
    rc, out = sh('git apply %s' % os.path.join(dst, 'patch.diff'), cwd=REPO)
    if rc != 0:
        print('patch does not apply to the current /repo:', out)
        return 2
    try:
        for p in props:
            t0 = time.time()
            rc, out = sh('./check %s --tier quick' % p, cwd=V, timeout=5400)
            viol = [l for l in out.splitlines() if l.startswith('VIOLATION') or l.startswith('[violation]')]
            meta['detected_by'][p] = {'rc': rc, 'detected': rc == 1, 'wall_s': round(time.time() - t0), 'lines': [v[:400] for v in viol][:3]}
            print(p, 'rc=%d' % rc, 'DETECTED' if rc == 1 else ('CHECK-ERROR' if rc == 2 else 'missed'))
            for v in viol[:2]:
                print('   ', v[:300])
            if rc == 2:
                print(out[-1500:])
    finally:
        sh('git checkout -- .', cwd=REPO)
        json.dump(meta, open(os.path.join(dst, 'meta.json'), 'w'), indent=1)
    return 0


if __name__ == '__main__':
    if sys.argv[1] == 'confirm':
        sys.exit(confirm(sys.argv[2], sys.argv[3], sys.argv[4]))
    sys.exit(detect(sys.argv[2], sys.argv[3:]))
