"""Shared runner of the network-level checks (C07 - C14): net_driver executions validated by NetworkTrace.tla with the
contracts of one property enabled (VPROP)."""
import json
import os
import vlib
from vlib import Evidence


def signature(ev, exec_lines, idx, r=None):
    contract = r['contracts'][-1][0] if r and r.get('contracts') else 'Structure'
    parts = ['net', ev.get('e', '?'), contract]
    for k in ('kind', 'rel'):
        if k in ev:
            parts.append(str(ev[k]))
    if 'real' in ev:
        parts.append('rdl' if ev['real'] else 'idl')
    if ev.get('e') in ('dl_bounds', 'dl_distance', 'dl_equates'):
        parts.append(query_shape(ev))
    return ':'.join(parts)


def _lin_sub(l, r):
    from fractions import Fraction
    cs = {}
    for x, n, d in l['v']:
        cs[x] = cs.get(x, 0) + Fraction(n, d)
    for x, n, d in r['v']:
        cs[x] = cs.get(x, 0) - Fraction(n, d)
    cs = {x: c for x, c in cs.items() if c != 0}
    k = Fraction(l['k'][0], l['k'][1]) - Fraction(r['k'][0], r['k'][1])
    return cs, k


def query_shape(ev):
    """operand class of a difference-logic expression query: number of variables of the expression the
    implementation normalises, class of its leading coefficient, whether a constant is present"""
    zero = {'v': [], 'k': [0, 1]}
    if ev['e'] == 'dl_bounds':
        cs, k = _lin_sub(ev['l'], zero)
    else:
        cs, k = _lin_sub(ev['l'], ev['r'])
    if not cs:
        return 'v0'
    c = cs[min(cs)]
    cc = '+1' if c == 1 else '-1' if c == -1 else '+c' if c > 0 else '-c'
    return 'v%d:c%s:%s' % (len(cs), cc, 'k0' if k == 0 else 'k')


def describe(ev, exec_lines, idx, r=None):
    return 'contract=%s' % (r['contracts'][-1][0] if r and r.get('contracts') else '?')


def interesting(prop, exec_lines):
    """Does the execution exercise the property non-trivially?"""
    txt = '\n'.join(exec_lines)
    if prop == 'C07':
        return '"k":"learnt"' in txt
    if prop == 'C08':
        return txt.count('"e":"pop"') + txt.count('"e":"next"') >= 2
    if prop == 'C09':
        return '"k":"lra"' in txt and '"e":"assume"' in txt
    if prop == 'C10':
        return '"k":"dist"' in txt and '"e":"assume"' in txt
    if prop == 'C11':
        return '"e":"lra_rel"' in txt
    if prop == 'C12':
        return '"e":"dl_rel"' in txt or '"e":"dl_bounds"' in txt or '"e":"dl_distance"' in txt or '"e":"dl_equates"' in txt
    if prop == 'C13':
        return '"k":"def"' in txt
    if prop == 'C14':
        return '"k":"ovvar"' in txt
    return True


def canon(exec_lines):
    """executions are compared after dropping the observables (calls, arguments, results and hooks remain)"""
    out = []
    for ln in exec_lines:
        j = json.loads(ln)
        j.pop('obs', None)
        out.append(json.dumps(j, sort_keys=True))
    return '\n'.join(out)


def run_net(prop, tier, seed, profiles, rule, assumptions, models=(), level='model_checking', dlimpl=(), satimpl=None, lraimpl=None, reifyimpl=None, ovimpl=None, lracreate=None, cache=None, release_too=False, post=None):
    """profiles: list of (profile, executions_quick, executions_thorough, max_ops)"""
    ev = Evidence(prop, tier, seed, level)
    ev.cov['rule'] = rule
    ev.assumptions = list(assumptions)
    try:
        for module, cfgq, cfgt, what, actions in models:
            if (cfgq if tier == 'quick' else cfgt) is None:
                continue
            r = vlib.model_check(module, cfgq if tier == 'quick' else cfgt, timeout=280 if tier == 'quick' else 3000,
                                 expect_actions=actions)
            ev.add_model(r, what)
            if r['invariant_violated'] or r['property_violated'] or not r['no_error']:
                ev.violations += 1
                rp = os.path.join(vlib.VERIF, 'replays', '%s-%s.out' % (prop, module))
                os.makedirs(os.path.dirname(rp), exist_ok=True)
                open(rp, 'w').write(r['out'])
                vlib.violation(prop, rp, 'TLC model %s/%s violates %s' % (module, r['cfg'], r['invariant_violated'] or 'a property'))
                return 1
        vlib.build_repo('dbg', targets=['smt'])
        drv = vlib.build_driver('net_driver', 'dbg')
        rd = vlib.run_dir(prop)
        distinct = set()
        dropped = 0
        for i, (profile, nq, nt, max_ops) in enumerate(profiles):
            nexec = nq if tier == 'quick' else nt
            path = os.path.join(rd, '%s.ndjson' % profile)
            rc, out = vlib.run([drv, 'gen', profile, str(seed * 1000 + i), str(nexec), path, str(max_ops)], timeout=900, check=False)
            if rc not in (0, 3) and not (rc < 0 or rc >= 128):
                raise vlib.CheckError('net_driver failed rc=%d: %s' % (rc, out[-2000:]))
            crashed = rc < 0 or rc >= 128   # the library crashed under the driver: the trace ends with an abort event
            m = __import__('re').search(r'wide_dropped=(\d+)', out)
            dropped += int(m.group(1)) if m else 0
            lines = vlib.read_lines(path)
            if crashed and not (lines and '"e":"abort"' in lines[-1]):
                lines.append(json.dumps({'e': 'abort', 'what': 'driver killed, rc=%d' % rc}, separators=(',', ':')))
            for e in vlib.split_executions(lines):
                if interesting(prop, e):
                    distinct.add(hash(canon(e)))
            v = vlib.validate_batch(ev, prop, 'NetworkTrace', lines, signature, profile, timeout=1700,
                                    env={'VPROP': prop}, describe_fn=describe)
            if v:
                break
        # the same seeded histories in a build without assertions (NDEBUG): what a failed assertion hides there is judged by
        # the contracts on the values
        if release_too and not ev.violations:
            vlib.build_repo('rel', targets=['smt'])
            rdrv = vlib.build_driver('net_driver', 'rel')
            for i, (profile, nq, nt, max_ops) in enumerate(profiles):
                nexec = max(10, (nq if tier == 'quick' else nt) // 2)
                path = os.path.join(rd, '%s_rel.ndjson' % profile)
                rc, out = vlib.run([rdrv, 'gen', profile, str(seed * 1000 + 500 + i), str(nexec), path, str(max_ops)], timeout=900, check=False)
                if rc not in (0, 3) and not (rc < 0 or rc >= 128):
                    raise vlib.CheckError('net_driver (rel) failed rc=%d: %s' % (rc, out[-2000:]))
                lines = vlib.read_lines(path)
                if (rc < 0 or rc >= 128) and not (lines and '"e":"abort"' in lines[-1]):
                    lines.append(json.dumps({'e': 'abort', 'what': 'driver killed, rc=%d' % rc}, separators=(',', ':')))
                if vlib.validate_batch(ev, prop, 'NetworkTrace', lines, signature, profile + '-rel', timeout=1700,
                                       env={'VPROP': prop}, describe_fn=describe):
                    break
        # the corpus of recorded call sequences (counterexamples of the implementation-shaped models, earlier findings)
        import glob
        for f in sorted(glob.glob(os.path.join(vlib.VERIF, 'problems', 'net_*.ndjson'))):
            if ev.violations:
                break
            outp = os.path.join(rd, 'corpus_' + os.path.basename(f))
            vlib.run([drv, 'replay', f, outp], timeout=300, check=False)
            vlib.validate_batch(ev, prop, 'NetworkTrace', vlib.read_lines(outp), signature, 'corpus-' + os.path.basename(f)[4:-7],
                                timeout=600, env={'VPROP': prop}, describe_fn=describe)
        # the expression cache on networks with thousands of variables (CacheTrace)
        if cache and not ev.violations:
            nex = cache[0] if tier == 'quick' else cache[1]
            path = os.path.join(rd, 'cache.ndjson')
            rc, out = vlib.run([drv, 'gen', 'cache', str(seed), str(nex), path, '10'], timeout=1200, check=False)
            if rc not in (0, 3) and not (rc < 0 or rc >= 128):
                raise vlib.CheckError('net_driver (cache) failed rc=%d: %s' % (rc, out[-2000:]))
            cl = vlib.read_lines(path)
            if rc != 0 and not (cl and '"e":"abort"' in cl[-1]):
                cl.append(json.dumps({'e': 'abort', 'what': 'driver killed, rc=%d' % rc}, separators=(',', ':')))
            ev.cov['cache_requests'] = sum(1 for x in cl if '"e":"new_' in x and '"e":"new_var"' not in x)
            vlib.validate_batch(ev, prop, 'CacheTrace', cl,
                                lambda e_, ex, i, r=None: 'cache:%s:%s' % (e_.get('e'), r['contracts'][-1][0] if r and r.get('contracts') else 'Structure'),
                                'cache', timeout=1700)
        # every transition of the implementation-shaped difference-logic model, replayed on the library
        for real in dlimpl:
            if ev.violations:
                break
            import dlreplay
            if isinstance(real, tuple):      # (real?, a further configuration of the generator)
                dlreplay.run(ev, prop, tier, real[0], extra=real[1])
            else:
                dlreplay.run(ev, prop, tier, real)
        # every transition of the implementation-shaped model of the sat core, replayed on the library
        if satimpl and not ev.violations:
            import satreplay
            satreplay.run(ev, prop, tier, satimpl[0] if tier == 'quick' else satimpl[1])
        # every transition (between abstract states) of the implementation-shaped model of the simplex, replayed on the library
        if lraimpl and not ev.violations:
            import lrareplay
            lrareplay.run(ev, prop, tier, lraimpl[0] if tier == 'quick' else lraimpl[1])
        # every transition of the implementation-shaped model of the reified constructors, replayed on the library
        if reifyimpl and not ev.violations:
            import reifyreplay
            reifyreplay.run(ev, prop, tier, reifyimpl[0] if tier == 'quick' else reifyimpl[1])
        # every transition of the implementation-shaped model of the creation-time logic of lra_theory, replayed on the library
        if lracreate and not ev.violations:
            import lracreplay
            lracreplay.run(ev, prop, tier, lracreate[0] if tier == 'quick' else lracreate[1])
        # every transition of the implementation-shaped model of the object-variable theory, replayed on the library
        if ovimpl and not ev.violations:
            import ovreplay
            ovreplay.run(ev, prop, tier, ovimpl[0] if tier == 'quick' else ovimpl[1])
        if post and not ev.violations:
            post(ev, rd, tier, seed)
        ev.cov['distinct_nontrivial'] = len(distinct)
        ev.cov['executions_dropped_wide_numbers'] = dropped
    finally:
        ev.write()
    return 1 if ev.violations else 0


def replay(prop, path):
    """re-executes the recorded calls on the current tree and validates the fresh trace"""
    vlib.build_repo('dbg', targets=['smt'])
    drv = vlib.build_driver('net_driver', 'dbg')
    rd = vlib.run_dir(prop + '-replay')
    out = os.path.join(rd, 'replayed.ndjson')
    vlib.run([drv, 'replay', os.path.abspath(path), out], timeout=300, check=False)
    ok, m, t, r = vlib.validate_trace('NetworkTrace', out, env={'VPROP': prop})
    print('matched %d of %d lines' % (m, t))
    if not ok:
        lines = vlib.read_lines(out)
        print('rejected line: ' + lines[min(m, len(lines) - 1)][:600])
        print('contract: %s' % (r['contracts'][-1][0] if r['contracts'] else '?'))
        vlib.violation(prop, path)
        return 1
    return 0
