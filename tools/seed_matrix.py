#!/usr/bin/env python3
"""Fills the summaries of /verif/seeded/*/meta.json and prints the table of section 10 of DESIGN.md."""
import glob
import json
import os

V = os.path.dirname(os.path.dirname(os.path.abspath(__file__)))
INFO = {  # name: (change, what it needs to manifest, first result, what catches it now)
 'C01-a': ("rdl_theory::propagate: the two independent tightenings of the O(n) loop merged into if / else if", "time-point (tp) variables with windows already in place when a maximum separation is asserted (order dependent)", "missed: no generated problem used tp variables", "C01 RdlDefsHold on the time-point family; also C10 / C08 (replay of DiffLogicImpl transitions on rdl_theory)"),
 'C01-b': ("sat_core::new_at_most_one: product-encoding column count ceil(n/p) -> n/p", "at-most-one / exactly-one over 5, 7, 8, 10.. undecided literals (RIDDLE '^' with >= 5 operands, enums with >= 5 values)", "missed by C01 (arities up to 4 only)", "C01 BoolDefsHold / AssertsHold on the cardinality family (n = 2..10); C13 ReifiedMeaning on argument lists of length 5-7"),
 'C02-a': ("row::propagate_ub: 'lb > v' -> 'lb >= v' in one of four symmetric branches", "a row bound exactly equal to the constant of an unassigned assertion inside a disjunction, propagated before the fact that decides the disjunction", "missed by C02 and C09", "C02 boundary family (all statement orders, ConstraintSat verdicts); C09 LraImpl replay (LearntEntailed on the lemma)"),
 'C02-b': ("lra_theory::new_lt: assertion cache key without the infinitesimal (x < c and x <= c share a literal)", "a strict and a non-strict relation on the same expression and constant, the first created inside a disjunction", "missed by C02", "C02 strict / non-strict pairs of the boundary family; C11 (second meaning of a shared literal)"),
 'C03-a': ("solver::new_causal_link: operands of the ordering constraint swapped", "two goal trees whose sub-goals unify with each other's atoms, well-founded exits killed by a decision", "missed: generator had no such shape and SupportAcyclic did not follow disjunction flaws", "C03 SupportAcyclic (edges through disjunction flaws) on the mutual-recursion family"),
 'C03-b': ("atom::new_eq: only the first super-predicate's fields are equated", "predicate with >= 2 argument-carrying super-predicates, atoms separated on an argument of a non-first one, overlapping bounds", "missed: no multiple inheritance of predicates generated", "C03 Justified (UnifiedOK) on the multi-super family"),
 'C04-a': ("state_variable::get_current_incs: pulses keyed by rational (infinitesimal dropped)", "two atoms on one state variable related by a strict temporal constraint (overlap of infinitesimal length)", "missed: only non-strict relations generated", "C04 NoSvOverlap on the feature-cross timeline family (strict relations)"),
 'C05-a': ("reusable_resource: capacity evaluated once and cached", "capacity given as an expression whose value drops after the first check (incremental read, or a decision taken later)", "missed: constant capacities only", "C05 RrWithinCapacity on the timeline family (variable / time-dependent capacities, incremental reading)"),
 'C05-b': ("solver::solve(): fast path 'no flaws -> solution' when re-entered above root level", "bounds changed through the public API after a solve (what the executor does on a delay), then solve() again", "missed: C05 never re-solved after adaptations", "C05 / C04 now execute the timeline problems with delays (exec_driver) and validate every adapted plan; C19"),
 'C06-a': ("predicate::apply_rule skips super-predicates with an empty body (and so the recursion above them)", "goal on a predicate that reaches Interval / Impulse through a predicate with an empty body", "missed: no inheritance chains generated", "C06 TemporallyWellFormed on the inheritance family"),
 'C07-a': ("clause::propagate returns on a conflict before re-registering its watch", "a conflict at a level >= 1, then the watched literal becomes true again", "check error (driver output corrupted), then missed", "C07 replay of SatCoreImpl transitions (deviation -> NetworkTrace -> abort / missed propagation); the model variant LoseWatchBug fails WatchInv; garbage / abort events are now rejections"),
 'C07-b': ("sat_core::check: early 'return false' for an already false assumption before the cleanup pops", "check() with >= 2 literals where a later one is falsified by propagating the earlier ones", "detected at once", "C07 Decisions / Sound (seeded histories)"),
 'C08-a': ("rdl_theory::set_dist: undo layer keeps the last overwritten value instead of the first", "the same pair tightened twice within one level, then a pop", "missed (40 random histories)", "C08 / C10 replay of every DiffLogicImpl transition on rdl_theory (PopRestores)"),
 'C08-b': ("lra_theory::assert_lower/upper: the undo layer is written after the propagation loops", "a conflict inside the unate / row propagation of an assert at a level >= 1", "detected at once (after the LraImpl replay existed)", "C08 LraImpl replay + DeterminedByAssignedLiterals"),
 'C09-a': ("lra_theory::assert_upper saves the reason of the LOWER bound in the undo layer", "upper bound set at a level, tightened deeper, popped, then an explanation that uses it", "missed", "C09 LraImpl replay (ReasonsValid in the model; LearntEntailed on the implementation); the model variant ReasonBug fails"),
 'C09-b': ("assertion::propagate_ub: conflict explanation uses the lower bound's reason", "an upper-bound literal and a contradicting lower-bound literal assigned in the same propagation batch", "missed (single-literal decisions only)", "C09 LraImpl replay with two literals per batch (assigned but not yet propagated branches), LearntEntailed"),
 'C10-a': ("rdl_theory::propagate(lit), False branch: '>=' -> '>'", "a negated real difference constraint whose bound touches exactly", "detected at once", "C10 RdlDistancesExact"),
 'C11-a': ("lra_theory::new_lt/new_gt: in-place substitution leaves a zero coefficient", "strict relation over a basic variable whose row cancels another term exactly, cancelled variable unbounded", "detected at once", "C11 LraConstantDecided"),
 'C12-a': ("rdl_theory::equates: fallback to interval intersection for shapes other than (+1, -1)", "equates(y, x), negated or scaled forms with overlapping absolute bounds and a separating relative constraint", "detected at once", "C12 DlQuery"),
 'C12-b': ("idl_theory::propagate(lit), False branch: '>=' -> '>'", "a relation literal made false while the opposite bound touches the relation exactly", "missed by C12 (caught by C10)", "C12 now also enforces Idl/RdlDistancesExact; C10"),
 'C13-a': ("sat_core::new_conj/new_disj: cache key = concatenated decimal indices without separator", "two argument lists whose indices concatenate to the same digits (needs variable numbers >= 13)", "missed (<= 11 variables per execution)", "C13 CacheTrace on the cache profile (thousands of requests per network)"),
 'C14-a': ("ov_theory::new_eq: shortcut for domains sharing exactly one value returns a biconditional", "domains overlapping on exactly one value, both variables on other values", "detected at once", "C14 OvEquality"),
 'C14-b': ("ov_theory::value returns {val} as soon as one value literal is true", "variables created without the built-in exactly-one constraint (as the planner's enums)", "detected at once by C14 (RIDDLE-level via C17); the ov profile now also creates such variables", "C14 OvDomain"),
 'C15-a': ("rational::operator/=(I): branch for negative divisors removed", "compound /= with a negative integer and left operand 1 or +-inf", "detected at once", "C15 ArithTrace (operand grid)"),
 'C16-a': ("lin::operator-=(lin): '+=' on an existing term", "a subtraction that mentions the same variable in two operands", "detected at once", "C16 ExpectedValue (ExprGen)"),
 'C17-a': ("core::new_enum (real branch): max computed from lower bounds", "object variable over several instances accessing a real field that is an unfixed variable", "missed: fields were constants", "C17 SolvableIffSomeInstanceFits / ChoiceRespectsConstraints on the range cases of ObjGen"),
 'C18-a': ("core::read(script): syntax tree freed when a later phase throws", "a script that declares something and then fails, the client goes on with a script that uses the declaration", "missed: no sessions with rejected scripts", "C18 sessions (read(script), --recover) in Debug and ASan builds"),
 'C19-a': ("executor::build_timelines: 'end < current_time' -> '<='", "an atom that ends exactly at the current time", "detected at once", "C19 EverythingDispatched"),
 'C19-b': ("executor::tick: repeated start delay does not update the stored lower bound", "same atom delayed twice, then a failure of another atom and a re-plan that presses the delayed start back", "missed (no such plan, and the symptom matched the signature of the open finding)", "C19 DelayedStartKept on the pressure family; the finding's signature now tells delayed atoms apart"),
 'C20-a': ("parallel pivot lambda: constant term update guarded by the wrong row's constant", "PARALLELIZE build, a row with a constant term leaving the basis, a relation created afterwards over another row", "missed: no rows with constants, no creation after pivots", "C20 ParTrace on call sequences with derived variables (constant rows), creation after pivots, direct bounds"),
 'C04-c': ("solver::new_atom stops notifying smart types after the first one found", "a class with two smart-type ancestors where StateVariable is not the first (class Robot : Agent, StateVariable)", "check error (my plan_driver did not compile without the executor that day), then caught", "C04 NoSvOverlap on the timeline family (state variables that are also agents, both orders of the base types)"),
 'C06-c': ("solver::new_atom: the temporal rule for facts only for top-level predicates", "a fact on an Interval / Impulse predicate declared inside a plain (non-smart) class", "check error (same build break), then caught", "C06 TemporallyWellFormed on the inheritance family (host: plain class, origin > 0)"),
 'C10-c': ("idl_theory::set_dist: undo layer keeps the last overwritten value", "the same pair tightened twice within one level, then a pop (integer twin of C08-a)", "detected at once", "C10 / C08 replay of DiffLogicImpl transitions on idl_theory"),
 'C11-c': ("lin::operator-=(lin) no longer erases a coefficient that cancels to zero", "a RIDDLE / core subtraction in which a variable cancels exactly, the variable unbounded, NDEBUG build for the silent variant", "missed: the driver built expressions without the compound operators", "C11 (relations whose operands are built through += / -= with a cancelling term; Debug: abort, release pass: LraConstantDecided)"),
 'C13-c': ("ov_theory::new_eq skips values whose two controlling literals coincide", "two object variables sharing a literal for a common value (fields reached through one object variable)", "missed by C13 and C14 (the agent filed an object-variable equality under C13)", "C14 OvEquality on derived object variables that share the literals of their base variable (C13's own check does not exercise ov_theory)"),
 'C15-c': ("lin::operator*=(rational): zero scalar keeps the constant term", "compound *= with scalar 0 and a non-zero constant term", "detected at once", "C15 ArithTrace"),
 'C16-c': ("lexer::mk_rational_token: denominator from the digits of the parsed fraction (leading zeros lost)", "real literals whose fraction starts with 0 (1.05, 0.05, 2.001)", "missed: no such literal forms generated", "C16 ExpectedValue on the literal forms of ExprGen"),
 'C17-c': ("constructor::invoke matches supertype constructors by full name", "a class derived from a nested type whose constructor calls a non-default constructor of that supertype", "missed", "C17 ExpectedValue on the nested-supertype program"),
 'C18-c': ("sat_core::propagate re-registers the conflicting clause a second time", "a clause conflict above root level, the clause deleted by simplify_db, the watched literal assigned again (use after free)", "missed by C18 (caught by C07)", "C18 replay of SatCoreImpl transitions in the ASan build; C07"),
}


def main():
    rows = []
    for f in sorted(glob.glob(os.path.join(V, 'seeded', '*', 'meta.json'))):
        m = json.load(open(f))
        info = INFO.get(m['name'])
        if info:
            m['change'], m['needs_to_manifest'], m['first_result'], m['caught_by'] = info
            m.pop('notes_head', None)
        m['what_was_run'] = ('tools/seed_eval.py confirm (scratch worktree: 82 tests pass with the change, run_demo.sh fails with it and passes '
                             'without it); tools/seed_eval.py detect (git -C /repo apply patch.diff; ./check <id> --tier quick; git -C /repo checkout -- .)')
        json.dump(m, open(f, 'w'), indent=1)
        det = ', '.join('%s: %s' % (k, 'caught' if v['detected'] else 'not caught') for k, v in sorted(m['detected_by'].items()))
        rows.append('| `%s` | %s | %s | %s | %s | %s |' % (m['name'], m.get('change', ''), m.get('needs_to_manifest', ''), m.get('first_result', ''), m.get('caught_by', ''), det))
    print('| seeded change | what was changed | what it needs to manifest | first result | caught now by | last recorded run |')
    print('|---|---|---|---|---|---|')
    print('\n'.join(rows))


if __name__ == '__main__':
    main()
