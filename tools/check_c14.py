"""C14 - object variables take exactly one allowed value; equality means same value."""
import netcheck

PROP = 'C14'


def run(tier, seed):
    return netcheck.run_net(PROP, tier, seed,
        profiles=[('ov', 120, 1200, 30)],
        rule='seeded histories on ov_theory: 2-4 object variables with domains of 1-3 values out of a pool of 4 (singleton, '
             'nested, overlapping, disjoint), equality literals between any two of them (both orders, repeated), clauses '
             'and assume/pop/next histories over the value literals; in every model exactly one value literal is true, the '
             'reported domain equals the values whose literal is not false, the equality literal is true exactly in the '
             'models where both variables take the same value; distinct_nontrivial = distinct executions with an object variable',
        assumptions=['at most 11 propositional variables per execution (model enumeration)'])


def replay(path):
    return netcheck.replay(PROP, path)
