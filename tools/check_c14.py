"""C14 - object variables take exactly one allowed value; equality means same value."""
import os

import netcheck
import plancheck
import vlib

PROP = 'C14'


def planner_variables(ev, rd, tier, seed):
    """object variables created by the planner (solver::new_enum: no built-in exactly-one, the choice is an enum flaw):
    the object cases of ObjGen (class tables, equalities / disequalities with instances, pinned variables, fields through
    chains, downcasts) solved by the real planner; the variable must take exactly one value, one that fits"""
    import check_c17
    problems, _ = check_c17.make(os.path.join(rd, 'obj'), tier, seed, ev)
    os.makedirs(os.path.join(rd, 'obj'), exist_ok=True)
    vlib.build_repo('dbg_exec')
    drv = vlib.build_driver('plan_driver', 'dbg_exec', libs=plancheck.LIBS)
    res = plancheck.run_problems(drv, [p for p in problems if p[0].startswith(('ob', 'oo_'))], os.path.join(rd, 'obj', 'dbg_exec'), 20 if tier == 'quick' else 90)
    ev.cov['planner_object_programs'] = len(res)
    return plancheck.validate_results(ev, PROP, res, 'obj')


def run(tier, seed):
    return netcheck.run_net(PROP, tier, seed,
        profiles=[('ov', 120, 1200, 30)],
        rule='(0) every transition of the state graph of the implementation-shaped model OvImpl (ov_theory::new_var with its value literals and the exactly-one built by new_exct_one, variables derived from the literals of another one, new_eq as written - ordered cache key, intersection, pruning and pairwise-equality clauses -, unit clauses that prune values, propagation; on top of the model of the sat core\'s constructors; spec/OvGen.tla prints one test per transition) replayed on the real ov_theory: answer, number and value of the propositional variables and the values every object variable allows compared with the model after every call; deviating executions are decided by NetworkTrace; '
             '(1) seeded histories on ov_theory: 2-4 object variables with domains of 1-3 values out of a pool of 4 (singleton, '
             'nested, overlapping, disjoint; with and without the built-in exactly-one; variables derived from another one that '
             'share its literals), equality literals between any two of them (both orders, repeated), clauses '
             'and assume/pop/next histories over the value literals; in every model exactly one value literal is true, the '
             'reported domain equals the values whose literal is not false, the equality literal is true exactly in the '
             'models where both variables take the same value; (2) the object variables of the planner (enum flaws instead of the '
             'built-in exactly-one): the object programs of ObjGen solved by the real planner, every declared variable ends with '
             'exactly one value, one that the reference semantics allows, and the program is solvable iff some instance fits; '
             'distinct_nontrivial = distinct executions with an object variable',
        models=[('MC_OvImpl', 'MC_OvImpl_A.cfg', 'MC_OvImpl_A.cfg',
                 'implementation-shaped model of ov_theory over the model of the sat core constructors: ExactlyOne, EqualityMeaning, ValueSound, NeverEmpty, OConservative over every history of <= 2 variables (overlapping / nested / disjoint / singleton domains, derived variables), one equality request and one pruning', None),
                ('MC_OvImpl', 'MC_OvImpl_B.cfg', 'MC_OvImpl_B.cfg',
                 'the same model: domains of three values, two prunings (down to a single value) before / after the equality request', None),
                ('MC_OvImpl', None, 'MC_OvImpl_C.cfg',
                 'the same model: three variables (two overlapping domains and a singleton, derived variables), two equality requests - chains a = b, b = c, an equality asked again in the other order (cache), a singleton in the middle - and one pruning: 466k states', None)],
        ovimpl=(['OvGen_A.cfg', 'OvGen_B.cfg'], ['OvGen_A.cfg', 'OvGen_B.cfg']),
        assumptions=['at most 11 propositional variables per execution (model enumeration)'],
        post=planner_variables)


def replay(path):
    return netcheck.replay(PROP, path)
