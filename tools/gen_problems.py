"""Renders the abstract problem shapes enumerated by spec/PlanGen.tla (with their verdicts) to RIDDLE programs, and
builds the temporal well-formedness family of C06."""
import json
import os
import random
import vlib


def plangen_shapes(natoms, rd):
    """runs TLC on PlanGen.tla; returns the list of shapes (dicts with 'feasible')"""
    out = os.path.join(rd, 'plangen%d.ndjson' % natoms)
    r = vlib.tlc('PlanGen', 'PlanGen.cfg', env={'GEN_OUT': out, 'GEN_ATOMS': str(natoms)}, workers=4, timeout=1500)
    if not os.path.exists(out) or 'GENERATED' not in r['out']:
        raise vlib.CheckError('PlanGen failed:\n' + r['out'][-3000:])
    return [json.loads(l) for l in open(out)], r


def sample_shapes(shapes, n, seed):
    rnd = random.Random(seed)
    feas = [s for s in shapes if s['feasible']]
    infeas = [s for s in shapes if not s['feasible']]
    k = min(len(infeas), n // 3)
    return rnd.sample(infeas, k) + rnd.sample(feas, min(len(feas), n - k))


def f(x):
    return '%d.0' % x


def render_timeline(sh):
    """RIDDLE text of a PlanGen shape"""
    L = ['origin == 0.0;', 'horizon == %s;' % f(sh['hor'])]
    if sh['fam'] == 'sv':
        L.append('class Sv : StateVariable { predicate P(real id) { } }')
        for i in range(sh['ninst']):
            L.append('Sv i%d = new Sv();' % i)
        L.append('predicate TaskF(Sv sv, real id, real d) : Interval { duration == d; fact f = new sv.P(id:id, start:start, end:end, duration:duration); }')
        L.append('predicate TaskG(Sv sv, real id, real d) : Interval { duration == d; goal g = new sv.P(id:id, start:start, end:end, duration:duration); }')
    else:
        for i in range(sh['ninst']):
            L.append('ReusableResource i%d = new ReusableResource(%s);' % (i, f(sh['cap'])))
        L.append('predicate TaskF(ReusableResource rr, real id, real d, real a) : Interval { duration == d; fact f = new rr.Use(amount:a, start:start, end:end, duration:duration); }')
        L.append('predicate TaskG(ReusableResource rr, real id, real d, real a) : Interval { duration == d; goal g = new rr.Use(amount:a, start:start, end:end, duration:duration); }')
    for k, a in enumerate(sh['atoms']):
        if a['inst'] == -1:
            extra = '' if sh['fam'] == 'sv' else ', a:%s' % f(a['amt'])
            L.append('goal a%d = new Task%s(id:%s, d:%s%s);' % (k, 'F' if a['mode'] == 'fact' else 'G', f(k), f(a['dur']), extra))
        elif sh['fam'] == 'sv':
            L.append('%s a%d = new i%d.P(id:%s);' % (a['mode'], k, a['inst'], f(k)))
            L.append('a%d.duration == %s;' % (k, f(a['dur'])))
        else:
            L.append('%s a%d = new i%d.Use(amount:%s);' % (a['mode'], k, a['inst'], f(a['amt'])))
            L.append('a%d.duration == %s;' % (k, f(a['dur'])))
        if a['st'] != -1:
            L.append('a%d.start == %s;' % (k, f(a['st'])))
    return '\n'.join(L) + '\n'


def shape_name(sh):
    return '%s%d_c%d_h%d_' % (sh['fam'], sh['ninst'], sh['cap'], sh['hor']) + '_'.join(
        '%s%s%sd%ds%sa%d' % (a['mode'][0], 'i', 'x' if a['inst'] == -1 else a['inst'], a['dur'],
                              'x' if a['st'] == -1 else a['st'], a['amt']) for a in sh['atoms'])


def temporal_family():
    """C06: {fact, goal} x {plain Interval predicate, plain Impulse predicate, SV, RR, Agent interval / impulse} x
    {direct, through a rule} x requested times (consistent / inconsistent); returns (name, text, consistent)"""
    out = []
    decl = {
        'plain': ('predicate Foo() : Interval { }', 'new Foo(%s)'),
        'plainimp': ('predicate Foo() : Impulse { }', 'new Foo(%s)'),
        'sv': ('class Sv : StateVariable { predicate Foo() { } }\nSv sv = new Sv();', 'new sv.Foo(%s)'),
        'rr': ('ReusableResource rr = new ReusableResource(5.0);', 'new rr.Use(amount:1.0%s)'),
        'agent': ('class Ag : Agent { predicate Foo() : Interval { } }\nAg ag = new Ag();', 'new ag.Foo(%s)'),
        'agentimp': ('class Ag : Agent { predicate Foo() : Impulse { } }\nAg ag = new Ag();', 'new ag.Foo(%s)'),
    }
    iv_times = [('ok', 'start:1.0, end:3.0', True), ('rev', 'start:5.0, end:3.0', False), ('zero', 'start:2.0, end:2.0', True),
                ('late', 'start:8.0, end:12.0', False), ('early', 'start:-2.0, end:1.0', False), ('none', '', True),
                ('dur', 'start:1.0, duration:2.0', True), ('negdur', 'start:4.0, duration:-1.0', False),
                ('baddur', 'start:1.0, end:3.0, duration:5.0', False), ('edge', 'start:0.0, end:10.0', True)]
    imp_times = [('ok', 'at:3.0', True), ('late', 'at:11.0', False), ('early', 'at:-1.0', False), ('none', '', True),
                 ('edge0', 'at:0.0', True), ('edge1', 'at:10.0', True)]
    for kind, (d, ctor) in decl.items():
        times = imp_times if kind.endswith('imp') else iv_times
        for mode in ('fact', 'goal'):
            for via in ('direct', 'rule'):
                for tname, targs, ok in times:
                    if kind == 'rr':
                        args = (', ' + targs) if targs else ''
                    else:
                        args = targs
                    new = ctor % args
                    L = ['origin == 0.0;', 'horizon == 10.0;', d]
                    if via == 'direct':
                        L.append('%s x = %s;' % (mode, new))
                    else:
                        L.append('predicate Outer() { %s x = %s; }' % (mode, new))
                        L.append('goal o = new Outer();')
                    out.append(('tw_%s_%s_%s_%s' % (kind, mode, via, tname), '\n'.join(L) + '\n', ok))
    return out


def causal_family():
    """C03: recursive rules, unification with facts / ancestors / siblings, disjunctions; (name, text, solvable)"""
    out = []
    for v in (0, 1, 2):
        out.append(('cz_loop_fact_%d' % v,
                    'predicate Loop(real x) { goal again = new Loop(x:x); }\nfact f = new Loop(x:%s);\ngoal g = new Loop(x:%s);\n' % (f(v), f(v)), True))
    for n in (1, 2, 3, 4):
        out.append(('cz_chain_%d' % n,
                    'predicate Step(real n) { { n == 0.0; } or { n >= 1.0; goal p = new Step(n:n - 1.0); } }\ngoal g = new Step(n:%s);\n' % f(n), True))
        out.append(('cz_chain_fact_%d' % n,
                    'predicate Step(real n) { n >= 1.0; goal p = new Step(n:n - 1.0); }\nfact base = new Step(n:0.0);\ngoal g = new Step(n:%s);\n' % f(n), True))
    out.append(('cz_mutual', 'predicate A(real x) { goal b = new B(x:x); }\npredicate B(real x) { goal a = new A(x:x); }\n'
                             'fact fa = new A(x:0.0);\ngoal gb = new B(x:0.0);\n', True))
    out.append(('cz_mutual2', 'predicate A(real x) { goal b = new B(x:x); }\npredicate B(real x) { goal a = new A(x:x); }\n'
                              'fact fa = new A(x:0.0);\nfact fb = new B(x:1.0);\ngoal ga = new A(x:1.0);\ngoal gb = new B(x:0.0);\n', True))
    for k in (2, 3):
        body = ' or '.join('{ goal p = new Q(v:%s); }' % f(i) for i in range(k))
        goals = ''.join('goal g%d = new P();\n' % i for i in range(k))
        out.append(('cz_disj_shared_%d' % k, 'real n;\npredicate P() { %s }\npredicate Q(real v) { v == n; }\n%s' % (body, goals), True))
    # siblings that can share one support
    out.append(('cz_siblings', 'predicate Need(real r) { goal s = new Supply(r:r); }\npredicate Supply(real r) { }\n'
                               'goal n0 = new Need(r:1.0);\ngoal n1 = new Need(r:1.0);\ngoal n2 = new Need(r:2.0);\n', True))
    # intervals: a goal supported by a fact through a temporal relation
    out.append(('cz_temporal', 'predicate On(real b) : Interval { duration >= 1.0; goal off = new Off(b:b, end:start); }\n'
                               'predicate Off(real b) : Interval { duration >= 1.0; }\nfact f = new Off(b:1.0, start:origin, end:5.0);\n'
                               'goal g = new On(b:1.0, end:horizon);\nhorizon >= 10.0;\n', True))
    # objects as arguments
    out.append(('cz_objects', 'class Loc { real id; Loc(real id) : id(id) {} }\nLoc l0 = new Loc(0.0);\nLoc l1 = new Loc(1.0);\n'
                              'predicate At(Loc l) { { l == l0; } or { goal from = new At(l:l0); } }\nfact here = new At(l:l0);\ngoal there = new At(l:l1);\n', True))
    return out


# ---- the constraint-only fragment (C02): abstract programs, decided by spec/ConstraintSat.tla ---------------------------
def _rel(rnd):
    a0, a1 = rnd.choice([(1, 0), (0, 1), (1, 1), (1, -1), (2, -1), (-1, 2)])
    return {'rel': rnd.choice(['lt', 'leq', 'eq', 'geq', 'gt', 'neq']), 'a0': a0, 'a1': a1, 'c': rnd.choice([-1, 0, 1, 2, 3])}


def constraint_programs(n, seed):
    rnd = random.Random(seed)
    progs = []
    for i in range(n):
        stmts = []
        for _ in range(rnd.choice([2, 3, 3, 4])):
            k = rnd.choice(['lit', 'or', 'xor', 'rel', 'rel', 'rel', 'disj', 'relor'])
            st = {'k': k, 'b': rnd.randint(0, 1), 'pos': rnd.randint(0, 1), 'b2': rnd.randint(0, 1), 'pos2': rnd.randint(0, 1),
                  'r': _rel(rnd), 'r2': _rel(rnd)}
            stmts.append(st)
        progs.append({'id': i, 'stmts': stmts})
    return progs


def _term(a, x, first):
    # the top-level parser only accepts statements that start with an identifier: the leading term is written x or x*k
    if first:
        return x if a == 1 else '%s*%d.0' % (x, a)
    if a == 1:
        return x
    return '%d.0*%s' % (a, x)


def render_rel(r, names):
    terms = [(a, x) for a, x in ((r['a0'], names[2]), (r['a1'], names[3])) if a != 0]
    terms.sort(key=lambda t: (t[0] != 1, t[0] < 0))      # a unit coefficient first when there is one, negatives last
    ts = [_term(a, x, i == 0) for i, (a, x) in enumerate(terms)]
    op = {'lt': '<', 'leq': '<=', 'eq': '==', 'geq': '>=', 'gt': '>', 'neq': '!='}[r['rel']]
    return '%s %s %d.0' % (' + '.join(ts), op, r['c'])


def render_constraints(p, names=('b0', 'b1', 'x0', 'x1'), order=None, tautology=False):
    L = ['bool %s;' % names[0], 'bool %s;' % names[1], 'real %s;' % names[2], 'real %s;' % names[3]]
    lit = lambda b, pos: ('' if pos else '!') + names[b]
    body = []
    for st in p['stmts']:
        if st['k'] == 'lit':
            body.append((names[st['b']] if st['pos'] else '%s == false' % names[st['b']]) + ';')
        elif st['k'] in ('or', 'xor'):
            op = '|' if st['k'] == 'or' else '^'
            l1, l2 = lit(st['b'], st['pos']), lit(st['b2'], st['pos2'])
            if l1.startswith('!') and not l2.startswith('!'):
                l1, l2 = l2, l1
            if l1.startswith('!'):      # both negated: the statement must still start with an identifier
                if op == '|':
                    body.append('%s -> %s;' % (l1[1:], l2))          # !a | !b
                else:
                    body.append('%s ^ %s;' % (l1[1:], l2[1:]))       # exactly one of !a, !b  =  exactly one of a, b
            else:
                body.append('%s %s %s;' % (l1, op, l2))
        elif st['k'] == 'rel':
            body.append(render_rel(st['r'], names) + ';')
        elif st['k'] == 'relor':
            # == and != bind weaker than | (the parser's precedence levels): such a relation is parenthesised
            rr = render_rel(st['r'], names)
            body.append(('(%s) | %s;' if st['r']['rel'] in ('eq', 'neq') else '%s | %s;') % (rr, lit(st['b'], st['pos'])))
        else:
            body.append('{ %s; } or { %s; }' % (render_rel(st['r'], names), render_rel(st['r2'], names)))
    if order:
        body = [body[i] for i in order]
    if tautology:
        body.insert(len(body) // 2, '%s <= %s + 1.0;' % (names[2], names[2]))
        body.append('%s | !%s;' % (names[0], names[0]))
    return '\n'.join(L + body) + '\n'


def decide_constraints(progs, rd):
    inp = os.path.join(rd, 'cprogs.ndjson')
    out = os.path.join(rd, 'cverdicts.ndjson')
    with open(inp, 'w') as fh:
        for p in progs:
            fh.write(json.dumps(p) + '\n')
    r = vlib.tlc('ConstraintSat', 'ConstraintSat.cfg', env={'GEN_IN': inp, 'GEN_OUT': out}, workers=4, timeout=1500)
    if not os.path.exists(out) or 'DECIDED' not in r['out']:
        raise vlib.CheckError('ConstraintSat failed:\n' + r['out'][-3000:])
    return {j['id']: j['sat'] for j in map(json.loads, open(out))}, r


def tight_family(first_id):
    """C02: bounds that meet exactly (or miss by one) through a relation between the two reals, the relation optionally
    guarded by a boolean that another statement falsifies, in every statement order: propagation must not lose the
    solutions on the boundary. Returns (programs, classes): every program is decided by ConstraintSat; the orders of one
    combination form an equivalence class."""
    import itertools
    progs, classes = [], {}
    pid = first_id
    def st(k, **kw):
        d = {'k': k, 'b': 0, 'pos': 1, 'b2': 0, 'pos2': 1, 'r': {'rel': 'leq', 'a0': 1, 'a1': 0, 'c': 0}, 'r2': {'rel': 'leq', 'a0': 1, 'a1': 0, 'c': 0}}
        d.update(kw)
        return d
    for rel in ('leq', 'lt', 'geq', 'gt'):
        for delta in (-1, 0, 1):
            for guarded in (False, True):
                lo_first = rel in ('leq', 'lt')                 # x0 rel x1: x0 bounded below, x1 bounded above (or the converse)
                s_lo = st('rel', r={'rel': 'geq' if lo_first else 'leq', 'a0': 1, 'a1': 0, 'c': 2})
                s_hi = st('rel', r={'rel': 'leq' if lo_first else 'geq', 'a0': 0, 'a1': 1, 'c': 2 + (delta if lo_first else -delta)})
                link = {'rel': rel, 'a0': 1, 'a1': -1, 'c': 0}
                stmts = [s_lo, st('relor', r=link, b=0, pos=1) if guarded else st('rel', r=link), s_hi]
                if guarded:
                    stmts.append(st('lit', b=0, pos=0))
                cls = 'tight_%s_%+d_%s' % (rel, delta, 'g' if guarded else 'u')
                for order in itertools.permutations(range(len(stmts))):
                    progs.append({'id': pid, 'stmts': [stmts[i] for i in order]})
                    classes.setdefault(cls, []).append(pid)
                    pid += 1
    # a strict and a non-strict relation on the same expression and constant, the first one created inside a disjunction
    # (so that its literal is not decided when the second is requested), with the bound that pins the boundary value
    for first, second, pin in (('lt', 'leq', 'geq'), ('leq', 'lt', 'geq'), ('gt', 'geq', 'leq'), ('geq', 'gt', 'leq'), ('lt', 'leq', 'leq'), ('geq', 'gt', 'geq')):
        for coef in ((1, 0), (1, -1)):
            e = {'a0': coef[0], 'a1': coef[1], 'c': 2}
            stmts = [st('relor', r=dict(e, rel=first), b=0, pos=1), st('rel', r=dict(e, rel=second)), st('rel', r=dict(e, rel=pin))]
            cls = 'strictpair_%s_%s_%s_%d' % (first, second, pin, coef[1])
            for order in itertools.permutations(range(len(stmts))):
                progs.append({'id': pid, 'stmts': [stmts[i] for i in order]})
                classes.setdefault(cls, []).append(pid)
                pid += 1
    return progs, classes
