"""Shared runner of the planner-level checks (C01, C03 - C06): plan_driver on problems, PlanTrace.tla validation."""
import concurrent.futures
import glob
import json
import os
import re
import vlib
from vlib import Evidence

LIBS = ('solver', 'core', 'riddle', 'smt', 'json')


def repo_problems():
    """the problems of the pinned test-suite (name, files), from solver/tests/CMakeLists.txt, plus the other examples"""
    probs = []
    txt = open(os.path.join(vlib.REPO, 'solver', 'tests', 'CMakeLists.txt')).read()
    for m in re.finditer(r'add_test\(NAME (\S+) COMMAND solver_tests (.*?) "solution.json"', txt):
        files = [f.replace('${CMAKE_SOURCE_DIR}', vlib.REPO) for f in re.findall(r'"([^"]+)"', m.group(2))]
        probs.append((m.group(1), files))
    seen = {tuple(f) for _, f in probs}
    for d in ('cr', 'um', 'incremental', 'execution', 'education'):
        for f in sorted(glob.glob(os.path.join(vlib.REPO, 'examples', d, '*.rddl'))):
            if (f,) not in seen and 'domain' not in os.path.basename(f):
                probs.append(('%s_%s' % (d, os.path.basename(f)[:-5]), [f]))
    return probs


EXPECT = {}     # problem name -> list of "expect" trace lines placed before the problem's own lines


def run_problems(drv, problems, rd, timeout_s, jobs=12, extra_args=None):
    """runs plan_driver on every problem; returns the concatenated trace lines and the per-problem verdicts"""
    os.makedirs(rd, exist_ok=True)

    def one(i_p):
        i, (name, files) = i_p
        out = os.path.join(rd, 'p%04d.ndjson' % i)
        rc, txt = vlib.run([drv, out, str(timeout_s), name] + files + (extra_args(name) if extra_args else []),
                           timeout=timeout_s * 40 + 90 if extra_args else timeout_s + 90, check=False)
        lines = vlib.read_lines(out) if os.path.exists(out) else []
        if not any('"e":"done"' in ln or '"e":"timeout"' in ln or '"e":"abort"' in ln for ln in lines):
            lines.append(json.dumps({'e': 'abort', 'name': name, 'phase': 'unknown', 'sig': rc}))
        elif 'LeakSanitizer' in txt and 'runtime error:' not in txt and 'ERROR: AddressSanitizer' not in txt:
            # leaks found at exit: reported by allocation site (the first frame inside the repository)
            lines.append(json.dumps({'e': 'leak', 'name': name, 'sites': leak_sites(txt)}))
        elif rc not in (0, 3, 4) or 'Sanitizer' in txt or 'runtime error:' in txt:
            # a sanitizer report (memory error, undefined behaviour)
            what = [l for l in txt.splitlines() if 'Sanitizer' in l or 'runtime error' in l][:2]
            lines.append(json.dumps({'e': 'abort', 'name': name, 'phase': 'sanitizer', 'sig': rc, 'what': ' | '.join(what)[:300]}))
        return name, EXPECT.get(name, []) + lines

    with concurrent.futures.ThreadPoolExecutor(max_workers=jobs) as ex:
        res = list(ex.map(one, enumerate(problems)))
    return res


def leak_sites(txt):
    """the allocation sites of the direct leaks of a LeakSanitizer report: 'file:function' of the first repository frame"""
    sites = set()
    for block in txt.split('\n\n'):
        if not block.lstrip().startswith('Direct leak'):
            continue
        for ln in block.splitlines():
            m = re.search(r' in (.+?) (/repo|%s)/(\S+?):\d+' % re.escape(vlib.REPO), ln)
            if m:
                fn = re.sub(r'\(.*', '', m.group(1))
                fn = re.sub(r'\[abi:\w+\]', '', fn)
                sites.add('%s:%s' % (m.group(3), fn))
                break
    return sorted(sites)


def check_leaks(ev, prop, results, cfg):
    """every leak site must be a listed known finding; returns 1 on a violation"""
    findings = vlib.load_findings(prop)
    seen = {}
    for name, ls in results:
        for ln in ls:
            if '"e": "leak"' in ln or '"e":"leak"' in ln:
                for s_ in json.loads(ln)['sites']:
                    seen.setdefault(s_, name)
    ev.cov['leak_sites_observed'] = sorted(seen)
    for site, name in sorted(seen.items()):
        sig = 'leak:' + site
        f = vlib.match_finding(findings, sig)
        if f:
            if f['signature'] not in [x['signature'] for x in ev.known]:
                vlib.known_finding(prop, '%s [%s]' % (f['what'], f['signature']))
                ev.known.append({'signature': f['signature'], 'what': f['what'], 'example': name})
            continue
        if os.environ.get('VERIF_COLLECT'):
            vlib.log('[collect] %s (%s)' % (sig, name))
            continue
        rp = os.path.join(vlib.VERIF, 'replays', '%s-leak-%s.rddl' % (prop, name))
        os.makedirs(os.path.dirname(rp), exist_ok=True)
        src = PROBLEM_FILES.get(name)
        if src:
            open(rp, 'w').write(''.join(open(p).read() for p in src))
        ev.violations += 1
        vlib.violation(prop, rp, 'memory allocated at %s is leaked (problem %s, configuration %s)' % (site, name, cfg))
        return 1
    return 0


def signature(ev, exec_lines, idx, r=None):
    contract = r['contracts'][-1][0] if r and r.get('contracts') else 'Structure'
    if ev.get('e', '').startswith('x_'):
        # executor events: what happened earlier in the execution is part of the identity of the failure
        before = exec_lines[:idx]
        ctx = 'after-failure' if any('"e":"x_failure"' in ln for ln in before) else \
              'after-delay' if any('"e":"x_dont_' in ln for ln in before) else 'plain'
        # was a delay requested earlier for one of the atoms of this event? (part of the identity of the failing history)
        ids = {a[0] for a in ev.get('atoms', []) if isinstance(a, list) and a}
        delayed = set()
        for ln in before:
            if '"e":"x_dont_start"' in ln:      # (a delayed start: what the client asked to keep later)
                try:
                    delayed |= {r[0] for r in json.loads(ln).get('req', [])}
                except ValueError:
                    pass
        if ctx == 'after-failure':
            # the history of the open finding: after a failure an atom that had not started (and was never delayed) is planned
            # before the current time
            started, past = set(), set()
            for ln in before + [exec_lines[idx]]:
                if '"e":"x_start"' in ln:
                    started |= {a[0] for a in json.loads(ln).get('atoms', [])}
                elif '"e":"x_plan"' in ln:
                    j = json.loads(ln)
                    t = j['t']
                    for a in j['atoms']:
                        sn, sd = a['s'][0]
                        if a['id'] not in started and sd != 0 and sn * t[1] < t[0] * sd:
                            past.add(a['id'])
            if past - delayed:
                ctx += ':unstarted-atom-planned-in-the-past'
            if (ids | past) & delayed:
                ctx += ':delayed'
        return 'exec:%s:%s:%s' % (ev['e'], contract, ctx)
    fam = re.sub(r'[_\d]+$', '', ev.get('name', '?'))
    return 'plan:%s:%s:%s' % (ev.get('e', '?'), contract, fam)


def describe(ev, exec_lines, idx, r=None):
    return 'problem=%s contract=%s' % (ev.get('name'), r['contracts'][-1][0] if r and r.get('contracts') else '?')


def validate_results(ev, prop, results, name):
    """each problem is one execution (its lines); executions are separated by the verdict line"""
    lines = []
    for _, ls in results:
        lines += ls
    # executions start at their verdict line (or at an abort/timeout line when there is no verdict)
    marked = []
    for pname, ls in results:
        ls = [ln for ln in ls if '"e": "leak"' not in ln and '"e":"leak"' not in ln]
        if ls:
            marked.append(ls)
    flat = [ln for ls in marked for ln in ls]
    return vlib.validate_batch(ev, prop, 'PlanTrace', flat, signature, name, timeout=3000, env={'VPROP': prop},
                               reset_key='"e":"expect"' if EXPECT else '"e":"verdict"', describe_fn=describe, groups=marked)


ALL_CONFIGS = ['dbg_exec', 'rel_exec_hadd_ci', 'dbg_exec_hadd', 'dbg_exec_ci', 'dbg_exec_hadd_ci', 'rel_exec', 'rel_exec_hadd', 'rel_exec_ci']


def write_problems(rd, named_texts):
    """writes generated programs to files; returns [(name, [file])]"""
    d = os.path.join(rd, 'gen')
    os.makedirs(d, exist_ok=True)
    out = []
    for name, text in named_texts:
        p = os.path.join(d, name + '.rddl')
        with open(p, 'w') as f:
            f.write(text)
        out.append((name, [p]))
    return out


def solution_stats(results):
    """per property: number of distinct problems whose reported solution exercises it"""
    st = {'solutions': 0, 'known_solved': set(), 'with_asserts': set(), 'with_unified_or_subgoal': set(), 'sv_pairs': set(), 'rr_pairs': set(),
          'temporal': set(), 'verdicts': {}}
    for name, ls in results:
        for ln in ls:
            if '"e":"verdict"' in ln:
                v = json.loads(ln)['verdict']
                st['known_solved'].add(name)
                st['verdicts'][v] = st['verdicts'].get(v, 0) + 1
            if '"e":"timeout"' in ln:
                st['verdicts']['timeout'] = st['verdicts'].get('timeout', 0) + 1
            if '"e":"solution"' not in ln:
                continue
            j = json.loads(ln)
            st['solutions'] += 1
            vals = j['vals']
            if j['asserts']:
                st['with_asserts'].add(name)
            act = [a for a in j['atoms'] if vals[a['sigma']] == 1]
            if any(vals[a['sigma']] == 0 for a in j['atoms']) or any(f['causes'] for f in j['flaws'] if f['kind'] == 'atom'):
                st['with_unified_or_subgoal'].add(name)
            if sum(1 for a in act if 'StateVariable' in a['owner']) >= 2:
                st['sv_pairs'].add(name)
            if sum(1 for a in act if 'ReusableResource' in a['owner']) >= 2:
                st['rr_pairs'].add(name)
            if any(a['interval'] or a['impulse'] for a in act):
                st['temporal'].add(name)
    return st


def run_plan(prop, tier, seed, rule, assumptions, make_problems, configs_quick, configs_thorough, stat_key, timeout_q=20,
             timeout_t=90, expect=None, models=(), post=None):
    """make_problems(rd, tier, seed, ev) -> [(name, files)];  expect: dict name -> True when the problem must be solved"""
    ev = Evidence(prop, tier, seed, 'model_checking')
    ev.cov['rule'] = rule
    ev.assumptions = list(assumptions)
    try:
        rd = vlib.run_dir(prop)
        problems, expected = make_problems(rd, tier, seed, ev)
        configs = configs_quick if tier == 'quick' else configs_thorough
        nontrivial = set()
        verdicts = {}
        for cfg in configs:
            vlib.build_repo(cfg)
            drv = vlib.build_driver('plan_driver', cfg, libs=LIBS)
            res = run_problems(drv, problems, os.path.join(rd, cfg), timeout_q if tier == 'quick' else timeout_t)
            st = solution_stats(res)
            nontrivial |= {(cfg, n) for n in st[stat_key]}
            for k, v in st['verdicts'].items():
                verdicts['%s:%s' % (cfg, k)] = v
            if validate_results(ev, prop, res, cfg):
                break
            if expected is not None:
                if check_expected(ev, prop, res, expected, cfg, rd):
                    break
        if post and not ev.violations:
            post(ev, rd, tier, seed)
        ev.cov['distinct_nontrivial'] = len(nontrivial)
        ev.cov['verdicts'] = verdicts
        ev.cov['configurations'] = configs
        ev.cov['problems'] = len(problems)
    finally:
        ev.write()
    return 1 if ev.violations else 0


def check_expected(ev, prop, results, expected, cfg, rd):
    """C02 direction: a problem known to have a solution must not be declared unsolvable (timeouts are excluded)"""
    findings = vlib.load_findings(prop)
    for name, ls in results:
        if not expected.get(name):
            continue
        v = [json.loads(ln) for ln in ls if '"e":"verdict"' in ln]
        if not v:
            continue  # timeout / abort: handled elsewhere
        verdict = next((x['verdict'] for x in v if x['verdict'] != 'solved'), 'solved')   # incremental problems: every step
        ev.cov['evaluations'] += 1
        if verdict == 'solved':
            continue
        sig = 'verdict:%s:%s' % (re.sub(r'_.*', '', name), verdict)
        sig_full = 'verdict:%s:%s' % (name, verdict)
        f = vlib.match_finding(findings, sig_full) or vlib.match_finding(findings, sig)
        if f:
            if f['signature'] not in [x['signature'] for x in ev.known]:
                vlib.known_finding(prop, '%s [%s]' % (f['what'], f['signature']))
                ev.known.append({'signature': f['signature'], 'what': f['what'], 'example': name})
            continue
        if os.environ.get('VERIF_COLLECT'):
            vlib.log('[collect] %s' % sig_full)
            continue
        files = [p for n, p in [(n, fs) for n, fs in PROBLEM_FILES.items()] if n == name]
        rp = os.path.join(vlib.VERIF, 'replays', '%s-%s-%s.rddl' % (prop, cfg, name))
        os.makedirs(os.path.dirname(rp), exist_ok=True)
        src = PROBLEM_FILES.get(name)
        if src:
            open(rp, 'w').write(''.join(open(p).read() for p in src))
        ev.violations += 1
        ev.sample({'violating_problem': name, 'verdict': verdict, 'config': cfg, 'replay': rp})
        vlib.violation(prop, rp, 'problem %s has a solution (by construction / by the TLA+ decision procedure) but the '
                                 'planner answered %s in configuration %s' % (name, verdict, cfg))
        return 1
    return 0


PROBLEM_FILES = {}


def remember(problems):
    for n, fs in problems:
        PROBLEM_FILES[n] = fs
    return problems


def replay_problem(prop, path, cfg='dbg_exec'):
    vlib.build_repo(cfg)
    drv = vlib.build_driver('plan_driver', cfg, libs=LIBS)
    rd = vlib.run_dir(prop + '-replay')
    res = run_problems(drv, [('replay', [os.path.abspath(path)])], rd, 60, jobs=1)
    ev = Evidence(prop + '-replay', 'quick', 0, 'model_checking')
    for _, ls in res:
        for ln in ls:
            if '"e":"solution"' not in ln:
                print(ln[:300])
    v = validate_results(ev, prop, res, 'replay')
    return 1 if v else 0


def write_feature_problems(rd, entries):
    """entries of gen_features (name, parts, solvable) -> [(name, files)] (files may contain '--then' separators)"""
    import gen_features
    d = os.path.join(rd, 'gen')
    os.makedirs(d, exist_ok=True)

    def write(n, t):
        p = os.path.join(d, n + '.rddl')
        with open(p, 'w') as fh:
            fh.write(t)
        return p
    # every part read after a solve() ends with a constraint on a fresh variable; the trace specification checks it on the
    # solutions reported afterwards (sessions with rejected scripts excepted: a rejected part is not part of the problem)
    ents = []
    for name, parts, ok in entries:
        if ok is False:      # no solution by construction: a reported solution would violate the problem
            EXPECT.setdefault(name, []).append(json.dumps(
                {'e': 'expect', 'name': name, 'var': '', 'kind': 'unsolvable', 'dom0': [], 'allowed': [], 'sat': 0, 'value': [0, 1], 'bvalue': 0},
                separators=(',', ':')))
        for (var, lo) in gen_features.EXTRA_EXPECT.get(name, []):      # a constraint of the rule of a goal that is in the plan
            EXPECT.setdefault(name, []).append(json.dumps(
                {'e': 'expect', 'name': name, 'var': var, 'kind': 'sentinel', 'dom0': [], 'allowed': [], 'sat': 1, 'value': [lo, 1], 'bvalue': 0},
                separators=(',', ':')))
        if len(parts) > 1 and not name.startswith('fs_'):
            parts = list(parts)
            for k in range(1, len(parts)):
                parts[k] = parts[k] + 'real snt%d;\nsnt%d >= 7.0;\n' % (k, k)
                EXPECT.setdefault(name, []).append(json.dumps(
                    {'e': 'expect', 'name': name, 'var': 'snt%d' % k, 'kind': 'sentinel', 'dom0': [], 'allowed': [], 'sat': 1, 'value': [7, 1],
                     'bvalue': 0}, separators=(',', ':')))
        ents.append((name, parts, ok))
    return gen_features.as_problems(ents, write)


def feature_problems(rd, fams, seed, tier):
    """the feature-cross families of tools/gen_features.py: returns ([(name, files)], {name: solvable or None})"""
    import gen_features
    k = 1 if tier == 'quick' else 8
    ent = []
    for fam in fams:
        if fam == 'timeline':
            ent += gen_features.timeline_family(seed, 60 * k)
        elif fam == 'timeline_sv':
            ent += [e for e in gen_features.timeline_family(seed, 90 * k) if e[0].startswith('ft_sv')]
        elif fam == 'timeline_rr':
            ent += [e for e in gen_features.timeline_family(seed, 90 * k) if e[0].startswith('ft_rr')]
        elif fam == 'inheritance':
            ent += gen_features.inheritance_family()
        elif fam == 'tp':
            ent += gen_features.tp_family(seed, 60 * k)
        elif fam == 'causal':
            ent += gen_features.causal_cross_family(seed, 50 * k)
        elif fam == 'incremental':
            ent += gen_features.incremental_family()
        elif fam == 'multisuper':
            ent += gen_features.multi_super_family()
        elif fam == 'cardinality':
            ent += gen_features.cardinality_family()
        elif fam == 'subclass':
            ent += gen_features.subclass_family()
        elif fam == 'impossible':
            ent += gen_features.impossible_family()
        elif fam == 'inactive':
            ent += gen_features.inactive_family()
        elif fam == 'unify':
            ent += gen_features.unify_family()
        elif fam == 'stricttie':
            ent += gen_features.strict_tie_family()
        elif fam == 'coefsign':
            ent += gen_features.coef_sign_family()
        elif fam == 'deepchain':
            ent += gen_features.deep_chain_family()
        elif fam == 'enummember':
            ent += gen_features.enum_member_family()
    return write_feature_problems(rd, ent), {n: s_ for n, p, s_ in ent}


def exec_runs(ev, prop, rd, problems, seed, tier, policies=((50, 0, 0), (35, 35, 0))):
    """the problems executed tick by tick by the real executor with a scripted client that delays starts / ends (exec_driver):
    every plan adapted after a delay is recorded as a solution and validated with the contracts of 'prop'"""
    libs = ('executor', 'solver', 'core', 'riddle', 'smt', 'json')
    vlib.build_repo('dbg_exec')
    drv = vlib.build_driver('exec_driver', 'dbg_exec', libs=libs)
    runs, pol = [], {}
    for name, files in problems:
        if '--then' in files:
            continue
        for k, (pds, pde, pf) in enumerate(policies):
            rn = '%s@x%d' % (name, k)
            runs.append((rn, files))
            pol[rn] = ['--exec', str(seed * 100 + k), str(pds), str(pde), str(pf), '45' if tier == 'quick' else '60']
    remember(runs)
    res = run_problems(drv, runs, os.path.join(rd, 'exec'), 20 if tier == 'quick' else 60, extra_args=lambda n: pol[n])
    ev.cov['executions_with_adapted_plans'] = sum(1 for n, ls in res if sum(1 for ln in ls if '"e":"solution"' in ln) > 1)
    return validate_results(ev, prop, res, 'exec')
