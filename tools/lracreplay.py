"""Replays the transitions of the implementation-shaped model LraCreate (printed by spec/LraCreateGen.tla, one test per
transition of its state graph) on the real lra_theory through net_driver.

Where the library's answer (the variable / literal returned - constants, reused slack variables and assertion literals
included), its number of propositional variables and the bounds and value of every arithmetic variable equal the model's
after every call, the execution inherits what TLC proved on the model (the literal means the requested relation on every
point of the box, slack variables carry the bounds and the value of their expressions). An execution that deviates from the model is not a violation in itself (an equally correct implementation may
fold other cases or number its variables differently): it is handed to the property-level trace specification
NetworkTrace, which decides."""
import json
import os
import re
import subprocess

import netcheck
import vlib

VAL = {'F': 0, 'T': 1, 'U': 2}


def generate(cfg, rd, timeout):
    out = os.path.join(rd, 'gen-%s.txt' % cfg)
    md = os.path.join(rd, 'md-' + cfg)
    cmd = ['java', '-XX:+UseParallelGC', '-Xmx6g', '-Xss64m', '-cp', vlib.TLA_CP, 'tlc2.TLC', '-workers', '4', '-noGenerateSpecTE',
           '-metadir', md, '-config', cfg, 'LraCreateGen.tla']
    with open(out, 'w') as fh:
        try:
            rc = subprocess.run(cmd, cwd=vlib.SPEC, stdout=fh, stderr=subprocess.STDOUT, timeout=timeout).returncode
        except subprocess.TimeoutExpired:
            raise vlib.CheckError('LraCreateGen/%s: timeout' % cfg)
    tail = subprocess.run(['tail', '-n', '12', out], capture_output=True, text=True).stdout
    m = re.search(r'(\d+) states generated, (\d+) distinct states found, 0 states left', tail)
    if rc != 0 or not m:
        raise vlib.CheckError('LraCreateGen/%s failed (rc=%d):\n%s' % (cfg, rc, tail))
    return out, {'module': 'LraCreateGen', 'cfg': cfg, 'states_generated': int(m.group(1)), 'distinct_states': int(m.group(2))}


def tests_of(path):
    with open(path) as fh:
        for ln in fh:
            if ln.startswith('<<"LRACTEST", '):
                yield json.loads(json.loads(ln[len('<<"LRACTEST", '):ln.rindex('>>')]))


def js(o):
    return json.dumps(o, separators=(',', ':'))


def lin_of(f):
    return {'v': [[int(x), c, 1] for x, c in sorted(f.items(), key=lambda kv: int(kv[0])) if c != 0], 'k': [0, 1]}


def translate(t):
    lines = [js({'e': 'reset', 'profile': 'lra', 'dlsize': 16})] + [js({'e': 'lra_new_var'})] * t['nx']
    for o in t['ops']:
        c = o['call']
        if c[0] == 'box':
            # every finite bound: the relation on the plain variable is requested, asserted as a unit clause and propagated
            k = 0
            for x in range(t['nx']):
                lb, ub = c[1]['lb'][str(x)], c[1]['ub'][str(x)]
                for (rel, q) in (('geq', lb), ('leq', ub)):
                    if q[1] != 0:
                        lines += [js({'e': 'lra_rel', 'rel': rel, 'l': {'v': [[x, 1, 1]], 'k': [0, 1]}, 'r': {'v': [], 'k': q}}),
                                  js({'e': 'new_clause', 'lits': [c[2][k]]}), js({'e': 'propagate'})]
                        k += 1
        elif c[0] == 'lra_def':
            lines.append(js({'e': 'lra_def', 'l': lin_of(c[1])}))
        elif c[0] == 'lra_rel':
            lines.append(js({'e': 'lra_rel', 'rel': c[1], 'l': lin_of(c[2]), 'r': {'v': [], 'k': [c[3], 1]}}))
    return lines


def conforms(t, ex):
    """ex: parsed output lines of the execution (after the reset line); returns None or a description of the deviation"""
    k = t['nx']          # the first lines answer lra_new_var
    for i, o in enumerate(t['ops']):
        c = o['call']
        if c[0] == 'skip':
            continue
        if c[0] == 'box':
            out = None
            for lit_ in c[2]:
                if k + 2 >= len(ex):
                    return 'call %d (box): not answered' % i
                if ex[k].get('e') != 'lra_rel' or ex[k].get('ret') != lit_:
                    return 'call %d (box): the bound literal is %s, the model has %s' % (i, ex[k].get('ret'), lit_)
                if ex[k + 1].get('ret') != 1 or ex[k + 2].get('ret') != 1:
                    return 'call %d (box): a bound was refused' % i
                out = ex[k + 2]
                k += 3
            if out is None:
                continue      # an unbounded box: nothing was called
        else:
            if k >= len(ex):
                return 'call %d (%s) was not answered' % (i, c[0])
            out = ex[k]
            k += 1
            if out.get('e') != c[0]:
                return 'call %d: expected %s, the driver executed %s' % (i, c[0], out.get('e'))
            if out['ret'] != c[-1]:
                return 'call %d (%s %s): the library returned %s, the model %s' % (i, c[0], c[1:-1], out['ret'], c[-1])
        if out is None or 'obs' not in out:
            return 'call %d (%s): no state reported' % (i, c[0])
        if out['n'] != o['n']:
            return 'call %d (%s %s): %d propositional variables, the model has %d' % (i, c[0], c[1:-1], out['n'], o['n'])
        if out['obs']['lra'] != o['lra']:
            return 'call %d (%s %s): arithmetic variables %s, the model has %s' % (i, c[0], c[1:-1], out['obs']['lra'], o['lra'])
    return None


def run(ev, prop, tier, cfgs, max_deviating=400, build='dbg', limit=None):
    vlib.build_repo(build, targets=['smt'])
    drv = vlib.build_driver('net_driver', build)
    rd = vlib.run_dir('%s-lracreate' % prop)
    total, exact, deviating, first_dev = 0, 0, [], None
    for cfg in cfgs:
        path, stats = generate(cfg, rd, 900 if tier == 'quick' else 3400)
        stats['what'] = 'test generation: one test per transition of LraCreate (%s)' % cfg
        stats['wall_s'] = 0
        ev.cov['models'].append(stats)
        chunk = []

        def flush():
            nonlocal total, exact, first_dev
            if not chunk:
                return
            all_lines = []
            for t in chunk:
                all_lines += translate(t)
            inp, outp = os.path.join(rd, 'tests.ndjson'), os.path.join(rd, 'out.ndjson')
            if os.path.exists(outp):
                os.remove(outp)
            vlib.write_lines(inp, all_lines)
            rc, o = vlib.run([drv, 'replay', inp, outp], timeout=1800, check=False)
            outs = vlib.split_executions(vlib.read_lines(outp))
            crashed = rc < 0 or rc >= 128 or rc == 3 or 'Sanitizer' in o or 'runtime error:' in o
            if len(outs) != len(chunk) and not crashed:
                raise vlib.CheckError('replay of the model tests: %d executions for %d tests (rc=%d) %s' % (len(outs), len(chunk), rc, o[-500:]))
            for k, t in enumerate(chunk):
                total += 1
                if k >= len(outs):
                    break     # the driver stopped at the crash: the execution that crashed is the last one, handled below
                ex = [json.loads(x) for x in outs[k][1:]]
                d = conforms(t, ex)
                if crashed and k == len(outs) - 1 and '"e":"abort"' not in outs[k][-1]:
                    outs[k].append(js({'e': 'abort', 'what': ('driver killed, rc=%d ' % rc) + ' | '.join(x for x in o.splitlines() if 'Sanitizer' in x or 'runtime error' in x)[:200]}))
                    d = d or 'the library crashed'
                if d is None:
                    exact += 1
                else:
                    first_dev = first_dev or d
                    if len(deviating) < max_deviating:
                        deviating.append(outs[k])
            del chunk[:]

        ntests = 0
        for t in tests_of(path):
            chunk.append(t)
            ntests += 1
            if len(chunk) >= 6000:
                flush()
            if limit and ntests >= limit:
                break
        flush()
        os.remove(path)
    ev.cov['lracreate_transitions_replayed'] = total
    ev.cov['lracreate_exact_conformance'] = exact
    ev.cov['lracreate_deviating_executions_validated'] = len(deviating)
    if first_dev:
        ev.cov['lracreate_first_deviation'] = first_dev
        vlib.log('[lracreate] %d of %d executions deviate from LraCreate (first: %s): NetworkTrace decides' % (total - exact, total, first_dev))
        flat = [ln for e in deviating for ln in e]
        return vlib.validate_batch(ev, prop, 'NetworkTrace', flat, netcheck.signature, 'lracreate', timeout=1700, env={'VPROP': prop},
                                   describe_fn=netcheck.describe)
    return 0
