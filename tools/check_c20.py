"""C20 - parallel pivoting gives the sequential result and is race-free."""
import json
import os
import vlib
from vlib import Evidence

PROP = 'C20'


def zipped(seq_lines, par_lines):
    """pairs the lines of two executions of the same call sequence; a missing counterpart is a difference"""
    out = []
    for i in range(max(len(seq_lines), len(par_lines))):
        a = seq_lines[i] if i < len(seq_lines) else '{"e":"missing"}'
        b = par_lines[i] if i < len(par_lines) else '{"e":"missing"}'
        if '"e":"reset"' in a:
            out.append('{"e":"reset"}')
        else:
            out.append('{"e":"cmp","seq":%s,"par":%s}' % (a, b))
    return out


def signature(ev, exec_lines, idx, r=None):
    contract = r['contracts'][-1][0] if r and r.get('contracts') else 'Structure'
    return 'par:%s:%s' % (contract, ev.get('seq', {}).get('e', '?'))


def run(tier, seed):
    ev = Evidence(PROP, tier, seed, 'model_checking')
    ev.cov['rule'] = ('(1) TLC explores every interleaving of the thread pool (2-3 workers, 3 tasks: mutex, shared condition variable, '
                      'active counter, enqueue / join) and of the row-update tasks of one pivot (2-3 rows, 2 variables, per-variable '
                      'mutex, watch-list update as read + write): join returns only when all tasks are done and always returns, watch '
                      'lists are updated under mutual exclusion, the result equals the sequential one; (2) seeded linear-arithmetic '
                      'call sequences (4-6 variables, 12-20 relations, assume / pop / next / check histories) are executed by the '
                      'sequential build and replayed call by call on the PARALLELIZE build under several pool sizes; ParTrace requires '
                      'identical results, truth values, decisions, bounds, values and learnt clauses for every call; (3) the same '
                      'sequences under ThreadSanitizer; (4) the thread pool driven directly (harness/pool_driver): rounds of "enqueue 1-8 trivial tasks, then join" on pools of 1, 2, 4 and 8 workers; the first 40 rounds of each of the 16 configurations are recorded event by event and validated by PoolTrace (every task started and ended exactly once, join() returned only after all of them had ended), the other rounds are checked in place, a join() that does not return within 60 s (twice) is a hang. distinct_nontrivial = call sequences compared in which the tableau was pivoted')
    ev.assumptions = ['a call sequence on which two runs of the sequential build differ (hash-order effects) is dropped and counted',
                      'data races in the C++ memory model are observed through ThreadSanitizer, not decided by TLC',
                      'thread schedules of the real runs are those the OS produces under the chosen pool sizes']
    try:
        q = tier == 'quick'
        for module, cfg, what, acts in (
                ('ThreadPool', 'MC_ThreadPool_quick.cfg' if q else 'MC_ThreadPool.cfg', 'thread pool: every interleaving; join returns only when all done, and always returns', None),
                ('ParPivot', 'MC_ParPivot_quick.cfg' if q else 'MC_ParPivot.cfg', 'parallel pivot tasks: mutual exclusion on watch lists, result equals sequential', None)):
            r = vlib.model_check(module, cfg, timeout=250 if q else 3000)
            ev.add_model(r, what)
            if r['invariant_violated'] or r['property_violated'] or not r['no_error']:
                rp = os.path.join(vlib.VERIF, 'replays', '%s-%s.out' % (PROP, module))
                os.makedirs(os.path.dirname(rp), exist_ok=True)
                open(rp, 'w').write(r['out'])
                ev.violations += 1
                vlib.violation(PROP, rp, 'model %s violates %s' % (module, r['invariant_violated'] or 'a temporal property'))
                return 1
        # the locking is what makes the model pass: without it the invariant must fail (non-vacuity)
        r = vlib.tlc('ParPivot', 'MC_ParPivot_nolock.cfg', workers=8, timeout=600)
        if not r['invariant_violated']:
            raise vlib.CheckError('ParPivot without locking does not violate MutualExclusion: the model is vacuous')
        ev.cov['nolock_model_violates'] = r['invariant_violated']
        rd = vlib.run_dir(PROP)
        vlib.build_repo('dbg', targets=['smt'])
        vlib.build_repo('dbg_par', targets=['smt'])
        seq = vlib.build_driver('net_driver', 'dbg')
        par = vlib.build_driver('net_driver', 'dbg_par', libs=('smt', 'json', 'concurrent'))
        nexec = 40 if q else 400
        base = os.path.join(rd, 'seq_gen.ndjson')
        vlib.run([seq, 'gen', 'lrabig', str(seed), str(nexec), base, '60'], timeout=1200, check=False)
        again = os.path.join(rd, 'seq_replay.ndjson')
        vlib.run([seq, 'replay', base, again], timeout=1200, check=False)
        e0 = vlib.split_executions(vlib.read_lines(base))
        e1 = vlib.split_executions(vlib.read_lines(again))
        stable = [i for i in range(min(len(e0), len(e1))) if e0[i] == e1[i]]
        ev.cov['sequences_generated'] = len(e0)
        ev.cov['sequences_dropped_sequential_not_deterministic'] = len(e0) - len(stable)
        pivoted = 0
        for i in stable:
            vals = set()
            for ln in e0[i]:
                if '"lra":[' in ln:
                    vals.add(ln[ln.index('"lra":['):ln.index('"idl"')])
            if len(vals) > 3:
                pivoted += 1
        ev.cov['distinct_nontrivial'] = pivoted
        for cpus in ((None, '0-1') if q else (None, '0', '0-1', '0-3')):
            out = os.path.join(rd, 'par_%s.ndjson' % (cpus or 'all').replace('-', '_'))
            cmd = ([] if cpus is None else ['taskset', '-c', cpus]) + [par, 'replay', base, out]
            rc, o = vlib.run(cmd, timeout=600 if q else 1800, check=False)     # (a replay that hangs is cut: the missing lines are differences)
            ep = vlib.split_executions(vlib.read_lines(out))
            lines = []
            for i in stable:
                lines += zipped(e0[i], ep[i] if i < len(ep) else [])
            ev.sample({'pool': cpus or 'all cpus', 'first_pair': lines[1][:300] if len(lines) > 1 else ''})
            if vlib.validate_batch(ev, PROP, 'ParTrace', lines, signature, 'par-' + (cpus or 'all'), timeout=2500):
                return 1
        # the thread pool itself, used as a pivot uses it: rounds of enqueue + join on pools of 1-8 workers; the first rounds
        # event by event, the rest checked in place; a join() that does not return is a "hang" event (PoolTrace)
        pool = vlib.build_driver('pool_driver', 'dbg_par', libs=('concurrent',))
        rounds = 20000 if q else 250000
        for attempt in (1, 2):
            pout = os.path.join(rd, 'pool_%d.ndjson' % attempt)
            rc, o = vlib.run([pool, pout, str(rounds), '40', '60'], timeout=3000, check=False)
            plines = vlib.read_lines(pout)
            if any('"e":"hang"' in x for x in plines) and attempt == 1:
                vlib.log('[pool] a join() did not return within 60 s: running the rounds again')
                continue      # reported only if it repeats (a starved machine is not a lost wake-up)
            if rc not in (0, 3):
                plines.append(json.dumps({'e': 'abort', 'what': 'pool_driver ended with rc=%d' % rc}))
            break
        # the events of an execution in the order of their sequence numbers
        ordered = []
        for e in vlib.split_executions(plines):
            head = [x for x in e if '"seq"' not in x]
            body = sorted((x for x in e if '"seq"' in x), key=lambda x: json.loads(x)['seq'])
            ordered += head[:1] + body + head[1:]
        ev.cov['pool_rounds'] = sum(json.loads(x).get('rounds', 0) for x in plines if '"e":"bulk"' in x) + 40 * 16
        if vlib.validate_batch(ev, PROP, 'PoolTrace', ordered, lambda e_, ex, i, r=None: 'pool:%s:%s' % (e_.get('e'), r['contracts'][-1][0] if r and r.get('contracts') else 'Structure'),
                               'pool', timeout=1200, chunk_lines=100000):
            return 1
        # ThreadSanitizer (observation)
        vlib.build_repo('tsan_par', targets=['smt'])
        tsan = vlib.build_driver('net_driver', 'tsan_par', libs=('smt', 'json', 'concurrent'))
        small = os.path.join(rd, 'tsan_in.ndjson')
        vlib.write_lines(small, [ln for i in stable[:(10 if q else 80)] for ln in e0[i]])
        rc, o = vlib.run([tsan, 'replay', small, os.path.join(rd, 'tsan_out.ndjson')], timeout=2400, check=False,
                         env={'TSAN_OPTIONS': 'halt_on_error=0 exitcode=66'})
        ev.cov['tsan_sequences'] = min(len(stable), 10 if q else 80)
        if 'ThreadSanitizer' in o:
            rp = os.path.join(vlib.VERIF, 'replays', 'C20-tsan.txt')
            os.makedirs(os.path.dirname(rp), exist_ok=True)
            open(rp, 'w').write(o[-20000:])
            ev.violations += 1
            vlib.violation(PROP, rp, 'ThreadSanitizer reports a data race in the PARALLELIZE build')
            return 1
    finally:
        ev.write()
    return 1 if ev.violations else 0


def replay(path):
    ok, m, t, r = vlib.validate_trace('ParTrace', os.path.abspath(path))
    print('matched %d of %d' % (m, t))
    return 0 if ok else 1
