#!/usr/bin/env python3-vt
"""Validates MANIFEST.json and every evidence file against the schemas in /root/.vp."""
import json, sys, os, glob
import jsonschema
V = os.path.dirname(os.path.dirname(os.path.abspath(__file__)))
ok = True
man = json.load(open(os.path.join(V, 'MANIFEST.json')))
try:
    jsonschema.validate(man, json.load(open('/root/.vp/MANIFEST.schema.json')))
    print('MANIFEST.json valid: %d checks, %d not_applicable' % (len(man['checks']), len(man.get('not_applicable', []))))
except jsonschema.ValidationError as e:
    ok = False
    print('MANIFEST.json INVALID:', e.message)
props = [json.loads(l)['id'] for l in open(os.path.join(V, 'properties.jsonl'))]
claimed = {c['property_id'] for c in man['checks']}
na = {c['property_id'] for c in man.get('not_applicable', [])}
for p in props:
    if p not in claimed and p not in na:
        ok = False
        print('property %s neither claimed nor not_applicable' % p)
es = json.load(open('/root/.vp/EVIDENCE.schema.json'))
for f in sorted(glob.glob(os.path.join(V, 'evidence', '*.json'))):
    try:
        jsonschema.validate(json.load(open(f)), es)
        print(os.path.basename(f), 'valid')
    except jsonschema.ValidationError as e:
        ok = False
        print(os.path.basename(f), 'INVALID:', e.message)
sys.exit(0 if ok else 1)
