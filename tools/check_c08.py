"""C08 - undoing decisions restores the network exactly."""
import netcheck

PROP = 'C08'


def run(tier, seed):
    return netcheck.run_net(PROP, tier, seed,
        profiles=[('mix', 60, 600, 60), ('lra', 40, 400, 60), ('idl', 40, 400, 60), ('rdl', 40, 400, 60), ('ov', 20, 200, 40)],
        rule='(0) every transition of the state graph of the implementation-shaped model SatCoreImpl (spec/SatCoreGen.tla prints one test per transition) replayed on the real sat_core: answer, value of every variable and decision level compared with the model after every call; deviating executions are decided by NetworkTrace; (1) every transition of the state graph of the implementation-shaped model DiffLogicImpl (spec/DiffLogicGen.tla prints one test per transition: shortest history to the source state + the action) replayed on idl_theory and rdl_theory, the reported distance matrix compared with the model after every level episode, pop and conflict backjump; (2) seeded assume / pop / next / check histories (conflicts and backjumps included) over networks mixing LRA, IDL, '
             'RDL and OV literals; whenever the same set of assigned literals recurs the reported bounds, distance matrices and '
             'domains must be identical to the earlier ones, and every assigned literal must be a consequence of the clauses and '
             'the standing decisions (so that root level leaves only root consequences); distinct_nontrivial = distinct '
             'executions with at least two pop/next steps',
        models=[('MC_DiffLogicImpl', 'MC_DiffLogicImpl_quick.cfg', 'MC_DiffLogicImpl.cfg',
                 'implementation-shaped model of idl_theory (incremental update, predecessors, enforcing constraints, first-write-wins undo layers): DistExact, ConflictIffNegCycle, ExplanationsValid, PopRestores* over all assert / negate / push / pop histories', None),
                ('MC_SatCoreImpl', 'MC_SatCoreImpl_C.cfg', 'MC_SatCoreImpl_A1.cfg', 'implementation-shaped model of sat_core / clause: trail, levels and watch lists after pop / backjump (TrailInv, WatchInv, PropagationComplete, AssignedEntailed)', None)],
        lraimpl=(['LraGen_A.cfg'], ['LraGen_A.cfg', 'LraGen_B.cfg']),
        satimpl=(['SatCoreGen_C.cfg', 'SatCoreGen_B.cfg', 'SatCoreGen_Asim.cfg'], ['SatCoreGen_A1.cfg', 'SatCoreGen_C.cfg', 'SatCoreGen_Asim.cfg']),
        dlimpl=(False, True, (False, 'DiffLogicGen_idl_chain.cfg'), (True, 'DiffLogicGen_rdl_chain.cfg'), (False, 'DiffLogicGen_idl_undo.cfg'), (True, 'DiffLogicGen_rdl_undo.cfg'), (False, 'DiffLogicGen_idl_sim.cfg'), (True, 'DiffLogicGen_rdl_sim.cfg'), (False, 'DiffLogicGen_idl_tie.cfg'), (True, 'DiffLogicGen_rdl_tie.cfg')),
        assumptions=['at most 11 propositional variables and 6 theory atoms per execution',
                     'arithmetic values (as opposed to bounds) are not required to be restored'])


def replay(path):
    return netcheck.replay(PROP, path)
