"""C05 - reusable-resource usage never exceeds capacity."""
import gen_problems
import plancheck

PROP = 'C05'


EXEC = []      # generated problems that are also executed with delays (the adapted plans are validated too)


def make(rd, tier, seed, ev):
    shapes, r = gen_problems.plangen_shapes(2, rd)
    ev.add_model(r, 'PlanGen: enumeration of all small timeline problems with their feasibility verdicts')
    rr = [s for s in shapes if s['fam'] == 'rr']
    pick = gen_problems.sample_shapes(rr, 250 if tier == 'quick' else 2500, seed)
    gen = plancheck.write_problems(rd, [(gen_problems.shape_name(s), gen_problems.render_timeline(s)) for s in pick]) + plancheck.feature_problems(rd, ['timeline_rr', 'subclass', 'inactive'], seed, tier)[0]
    repo = [p for p in plancheck.repo_problems() if p[0].startswith(('RRTest', 'Matera', 'Education', 'incremental'))]
    if tier == 'quick':
        repo = repo[::3]
    ev.sample({'generated_problem': gen[0][0], 'text': open(gen[0][1][0]).read()})
    EXEC.extend([g for g in gen if g[0].startswith('ft_')][:60 if tier == 'quick' else 600])
    # more timelines for the executor only (other seeds of the same family, read in one piece): an adaptation that goes wrong
    # needs a delay that actually presses on the timeline, which few of the problems above produce
    import gen_features
    more = []
    for j in range(1, 4 if tier == 'quick' else 13):
        more += [(n + '_s' + str(j), parts, ok) for (n, parts, ok) in gen_features.timeline_family(seed * 1000 + j, 90)
                 if n.startswith('ft_rr') and len(parts) == 1]
    EXEC.extend(plancheck.write_feature_problems(rd, more))
    return plancheck.remember(gen + repo), None


def run(tier, seed):
    return plancheck.run_plan(PROP, tier, seed,
        rule='reusable-resource problems: every shape enumerated by PlanGen.tla (1-2 resources of capacity 1-2, 2 atoms with '
             'amounts 1-2, facts/goals, fixed or planner-chosen resource, fixed or free start, durations 0-2, horizons 2-3) '
             'sampled by seed, plus the feature-cross timeline family (capacity given as a constant, as an expression of a variable bounded before or after the uses, or of the position of atoms on another timeline; 10 temporal relations; incremental reading), plus the repository examples that use reusable resources; every reported solution is validated '
             'by PlanTrace: at every start instant the exact sum of the amounts of the covering atoms assigned to the resource '
             'is within its capacity, every timeline segment lists exactly the covering atoms and its usage equals their sum; '
             'distinct_nontrivial = (configuration, problem) pairs whose solution has >= 2 active Use atoms',
        assumptions=['an atom is assigned to a resource when its tau is that resource or a variable whose reported domain is exactly it',
                     'solver runs exceeding the time budget are excluded and counted'],
        make_problems=make, configs_quick=['dbg_exec'], configs_thorough=['dbg_exec', 'rel_exec_hadd_ci', 'dbg_exec_ci', 'dbg_exec_hadd'],
        stat_key='rr_pairs',
        post=lambda ev, rd, tier_, seed_: plancheck.exec_runs(ev, PROP, rd, EXEC, seed_, tier_))


def replay(path):
    return plancheck.replay_problem(PROP, path)
