"""C16 - RIDDLE expressions are read and evaluated with the language's semantics."""
import json
import os
import riddlecheck
import vlib
from vlib import Evidence

PROP = 'C16'


def run(tier, seed):
    ev = Evidence(PROP, tier, seed, 'model_checking')
    ev.cov['rule'] = ('lexing: every string of length <= 4 (quick) / 5 (thorough) over the alphabet {/ * " \\ newline a 1 . space =} '
                      'plus a dictionary family (every keyword, every keyword prefix, keywords with identifier characters around '
                      'them, all pairs of operator characters, literal and comment forms), enumerated by LexGen.tla with the expected '
                      'token kinds from Lexer!Lex; the real lexer must answer the same kinds or an error at the same token. '
                      'distinct_nontrivial = distinct inputs containing at least one token')
    ev.assumptions = ['inputs on which the language definition is unclear (a numeral ending in a dot) are not judged',
                      "'this' may be answered as an identifier"]
    try:
        rd = vlib.run_dir(PROP)
        cases, r = riddlecheck.lexgen(rd, 4 if tier == 'quick' else 5)
        ev.add_model(r, 'LexGen: enumeration of lexer inputs with expected token kinds')
        vlib.build_repo('dbg', targets=['riddle'])
        drv = vlib.build_driver('riddle_driver', 'dbg', libs=('riddle', 'smt', 'json'))
        lines, restarts = riddlecheck.run_cases(drv, 'lex', cases, os.path.join(rd, 'lexout.ndjson'))
        ev.cov['driver_restarts_after_hang_or_crash'] = restarts
        ev.cov['distinct_nontrivial'] = len({ln for ln in lines if '"tokens":["EOF_ID"]' not in ln and '"tokens":[]' not in ln})
        v = vlib.validate_batch(ev, PROP, 'LexTrace', lines, riddlecheck.signature, 'lex', timeout=2500, env={'VPROP': PROP},
                                reset_key='"e":"lex"')
        if not v:
            expressions(ev, tier, seed, rd)
    finally:
        ev.write()
    return 1 if ev.violations else 0


def expressions(ev, tier, seed, rd):
    """expression trees printed with minimal parentheses, in four syntactic contexts, with their exact values"""
    import plancheck
    out = os.path.join(rd, 'exprgen.ndjson')
    r = vlib.tlc('ExprGen', 'ExprGen.cfg', env={'GEN_OUT': out, 'GEN_DEEP': '0' if tier == 'quick' else '1'}, workers=4, timeout=1500, xmx='8g')
    if not os.path.exists(out) or 'GENERATED' not in r['out']:
        raise vlib.CheckError('ExprGen failed:\n' + r['out'][-3000:])
    ev.add_model(r, 'ExprGen: enumeration of expression trees with printed text and exact values')
    cases = [json.loads(l) for l in open(out)]
    if tier == 'quick':
        import random
        random.Random(seed).shuffle(cases)
        cases = cases[:1500]
    named = []
    for i, c in enumerate(cases):
        name = 'ex%05d' % i
        named.append((name, c['text'] + '\n'))
        plancheck.EXPECT[name] = [json.dumps({'e': 'expect', 'name': name, 'var': c['var'], 'kind': c['kind'], 'value': c['value'],
                                              'bvalue': c['bvalue'], 'expr': c['expr'], 'ctx': c['ctx']}, separators=(',', ':'))]
    ev.sample({'expression_case': cases[0]})
    problems = plancheck.write_problems(rd, named)
    # the same programs read in two parts with a solve() in between: the variables are fixed by the first part, the
    # expression is translated by the second (constants that are values of fixed variables, not literals)
    marker = 'b == 3.0; '
    inc = []
    for i, c in enumerate(cases):
        if i % 3 == 0 and marker in c['text']:
            name = 'ex%05di' % i
            cut = c['text'].index(marker) + len(marker)
            files = [p for _, fs in plancheck.write_problems(rd, [(name, c['text'][:cut] + '\n'), (name + '_part1', c['text'][cut:] + '\n')]) for p in fs]
            inc.append((name, [files[0], '--then', files[1]]))
            plancheck.EXPECT[name] = [x.replace('"name":"ex%05d"' % i, '"name":"%s"' % name) for x in plancheck.EXPECT['ex%05d' % i]]
    ev.cov['expression_programs_read_in_two_parts'] = len(inc)
    problems = plancheck.remember(problems + inc)
    vlib.build_repo('dbg_exec')
    drv = vlib.build_driver('plan_driver', 'dbg_exec', libs=plancheck.LIBS)
    res = plancheck.run_problems(drv, problems, os.path.join(rd, 'expr'), 15)
    ev.cov['distinct_nontrivial'] += len({c['expr'] for c in cases})
    ev.cov['expression_programs'] = len(cases)

    def sig(e, exec_lines, idx, r=None):
        contract = r['contracts'][-1][0] if r and r.get('contracts') else 'Structure'
        x = json.loads(exec_lines[0]) if exec_lines and '"e":"expect"' in exec_lines[0] else {}
        ex = x.get('expr', '')
        shape = ('paren-nonid' if any(('(' + ch) in ex for ch in '0123456789-!(') else 'paren' if '(' in ex else 'flat')
        return 'expr:%s:%s:ctx%s:%s' % (contract, x.get('kind', '?'), x.get('ctx', '?'), shape)

    def desc(e, exec_lines, idx, r=None):
        return 'case=%s' % (exec_lines[0][:300] if exec_lines else '')
    flat = [ln for _, ls in res for ln in ls]
    return vlib.validate_batch(ev, PROP, 'PlanTrace', flat, sig, 'expr', timeout=3000, env={'VPROP': PROP},
                               reset_key='"e":"expect"', describe_fn=desc)


def replay(path):
    ok, m, t, r = vlib.validate_trace('LexTrace', os.path.abspath(path), env={'VPROP': PROP})
    print('matched %d of %d' % (m, t))
    if not ok:
        vlib.violation(PROP, path)
        return 1
    return 0
