"""Replays the transitions of the implementation-shaped model ReifyImpl (printed by spec/ReifyGen.tla, one test per
transition of its state graph) on the real sat_core through net_driver.

Where the library's answer (the literal returned), its number of variables and the value of every variable equal the
model's after every call, the execution inherits what TLC proved on the model (the literal means its formula in every model
of the clauses, the cache is sound, a request constrains nothing that existed, a fresh cardinality literal excludes
nothing). An execution that deviates from the model is not a violation in itself (an equally correct implementation may
fold other cases or number its variables differently): it is handed to the property-level trace specification
NetworkTrace, which decides."""
import json
import os
import re
import subprocess

import netcheck
import vlib

VAL = {'F': 0, 'T': 1, 'U': 2}


def generate(cfg, rd, timeout):
    out = os.path.join(rd, 'gen-%s.txt' % cfg)
    md = os.path.join(rd, 'md-' + cfg)
    cmd = ['java', '-XX:+UseParallelGC', '-Xmx6g', '-Xss64m', '-cp', vlib.TLA_CP, 'tlc2.TLC', '-workers', '4', '-noGenerateSpecTE',
           '-metadir', md, '-config', cfg, 'ReifyGen.tla']
    with open(out, 'w') as fh:
        try:
            rc = subprocess.run(cmd, cwd=vlib.SPEC, stdout=fh, stderr=subprocess.STDOUT, timeout=timeout).returncode
        except subprocess.TimeoutExpired:
            raise vlib.CheckError('ReifyGen/%s: timeout' % cfg)
    tail = subprocess.run(['tail', '-n', '12', out], capture_output=True, text=True).stdout
    m = re.search(r'(\d+) states generated, (\d+) distinct states found, 0 states left', tail)
    if rc != 0 or not m:
        raise vlib.CheckError('ReifyGen/%s failed (rc=%d):\n%s' % (cfg, rc, tail))
    return out, {'module': 'ReifyGen', 'cfg': cfg, 'states_generated': int(m.group(1)), 'distinct_states': int(m.group(2))}


def tests_of(path):
    with open(path) as fh:
        for ln in fh:
            if ln.startswith('<<"REIFYTEST", '):
                yield json.loads(json.loads(ln[len('<<"REIFYTEST", '):ln.rindex('>>')]))


def js(o):
    return json.dumps(o, separators=(',', ':'))


def translate(t):
    lines = [js({'e': 'reset', 'profile': 'sat', 'dlsize': 16})] + [js({'e': 'new_var'})] * t['nu']
    for o in t['ops']:
        c = o['call']
        if c[0] == 'new_clause':
            lines.append(js({'e': 'new_clause', 'lits': c[1]}))
        elif c[0] == 'propagate':
            lines.append(js({'e': 'propagate'}))
        else:
            lines.append(js({'e': 'new_' + c[0], 'args': c[1]}))
    return lines


def conforms(t, ex):
    """ex: parsed output lines of the execution (after the reset line); returns None or a description of the deviation"""
    k = t['nu']          # the first lines answer new_var
    for i, o in enumerate(t['ops']):
        if k >= len(ex):
            return 'call %d (%s) was not answered' % (i, o['call'][0])
        out = ex[k]
        k += 1
        c = o['call']
        name = c[0] if c[0] in ('new_clause', 'propagate') else 'new_' + c[0]
        if out.get('e') != name:
            return 'call %d: expected %s, the driver executed %s' % (i, name, out.get('e'))
        if name in ('new_clause', 'propagate'):
            if bool(out['ret']) != bool(c[-1]):
                return 'call %d (%s): the library answered %s, the model %s' % (i, name, out['ret'], c[-1])
        elif out['ret'] != c[2]:
            return 'call %d (%s %s): the library returned literal %s, the model %s' % (i, name, c[1], out['ret'], c[2])
        if o['dead']:
            return None       # inconsistent at root level: nothing more is observable
        if out['n'] != o['n']:
            return 'call %d (%s %s): %d variables, the model has %d' % (i, name, c[1] if len(c) > 2 else '', out['n'], o['n'])
        want = [VAL[x] for x in o['v']]
        if out['vals'] != want:
            return 'call %d (%s): values %s, the model has %s' % (i, name, out['vals'], want)
    return None


def run(ev, prop, tier, cfgs, max_deviating=400, build='dbg', limit=None):
    vlib.build_repo(build, targets=['smt'])
    drv = vlib.build_driver('net_driver', build)
    rd = vlib.run_dir('%s-reifyimpl' % prop)
    total, exact, deviating, first_dev = 0, 0, [], None
    for cfg in cfgs:
        path, stats = generate(cfg, rd, 900 if tier == 'quick' else 3400)
        stats['what'] = 'test generation: one test per transition of ReifyImpl (%s)' % cfg
        stats['wall_s'] = 0
        ev.cov['models'].append(stats)
        chunk = []

        def flush():
            nonlocal total, exact, first_dev
            if not chunk:
                return
            all_lines = []
            for t in chunk:
                all_lines += translate(t)
            inp, outp = os.path.join(rd, 'tests.ndjson'), os.path.join(rd, 'out.ndjson')
            if os.path.exists(outp):
                os.remove(outp)
            vlib.write_lines(inp, all_lines)
            rc, o = vlib.run([drv, 'replay', inp, outp], timeout=1800, check=False)
            outs = vlib.split_executions(vlib.read_lines(outp))
            crashed = rc < 0 or rc >= 128 or rc == 3 or 'Sanitizer' in o or 'runtime error:' in o
            if len(outs) != len(chunk) and not crashed:
                raise vlib.CheckError('replay of the model tests: %d executions for %d tests (rc=%d) %s' % (len(outs), len(chunk), rc, o[-500:]))
            for k, t in enumerate(chunk):
                total += 1
                if k >= len(outs):
                    break     # the driver stopped at the crash: the execution that crashed is the last one, handled below
                ex = [json.loads(x) for x in outs[k][1:]]
                d = conforms(t, ex)
                if crashed and k == len(outs) - 1 and '"e":"abort"' not in outs[k][-1]:
                    outs[k].append(js({'e': 'abort', 'what': ('driver killed, rc=%d ' % rc) + ' | '.join(x for x in o.splitlines() if 'Sanitizer' in x or 'runtime error' in x)[:200]}))
                    d = d or 'the library crashed'
                if d is None:
                    exact += 1
                else:
                    first_dev = first_dev or d
                    if len(deviating) < max_deviating:
                        deviating.append(outs[k])
            del chunk[:]

        ntests = 0
        for t in tests_of(path):
            chunk.append(t)
            ntests += 1
            if len(chunk) >= 6000:
                flush()
            if limit and ntests >= limit:
                break
        flush()
        os.remove(path)
    ev.cov['reifyimpl_transitions_replayed'] = total
    ev.cov['reifyimpl_exact_conformance'] = exact
    ev.cov['reifyimpl_deviating_executions_validated'] = len(deviating)
    if first_dev:
        ev.cov['reifyimpl_first_deviation'] = first_dev
        vlib.log('[reifyimpl] %d of %d executions deviate from ReifyImpl (first: %s): NetworkTrace decides' % (total - exact, total, first_dev))
        flat = [ln for e in deviating for ln in e]
        return vlib.validate_batch(ev, prop, 'NetworkTrace', flat, netcheck.signature, 'reifyimpl', timeout=1700, env={'VPROP': prop},
                                   describe_fn=netcheck.describe)
    return 0
