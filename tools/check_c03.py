"""C03 - every atom in a reported plan is justified and causal support is acyclic."""
import gen_problems
import plancheck

PROP = 'C03'


def make(rd, tier, seed, ev):
    fam = gen_problems.causal_family()
    gen = plancheck.write_problems(rd, [(n, t) for n, t, ok in fam]) + plancheck.feature_problems(rd, ['causal', 'inheritance', 'multisuper', 'impossible', 'unify', 'deepchain'], seed, tier)[0]
    repo = plancheck.repo_problems()
    if tier == 'quick':
        repo = [p for p in repo if not p[0].startswith(('GOAC', 'Matera'))] + [p for p in repo if p[0] in ('GOAC_2Pic_2Wind', 'GOAC_3Pic_1Wind', 'Matera_05')]
    ev.sample({'generated_problem': gen[0][0], 'text': open(gen[0][1][0]).read()})
    return plancheck.remember(gen + repo), None


def run(tier, seed):
    return plancheck.run_plan(PROP, tier, seed,
        rule='the repository examples (blocks, logistics, GOAC, telepresence use unification heavily) and generated families '
             'with recursive rules whose sub-goal can unify with a fact, an ancestor or a sibling, mutual recursion, shared '
             'supports and disjunctions, plus seeded mutual-recursion problems (tools/gen_features.py: 1-3 predicate pairs P_i -> Q_i -> P_j | guarded base case, 2-3 goals over shared variables, priced top-level disjunctions that kill or allow the base cases) and predicates with two or three argument-carrying super-predicates whose atoms are separated on an inherited argument; flaws, resolvers and causal links are read through the solver_listener API; in every '
             'reported solution each atom flaw of the plan has exactly one chosen resolver, activation makes the atom active and '
             'puts what its rule introduced into the plan, unification is with an active atom of the same predicate whose '
             'non-synthetic arguments have equal reported values, and no unified atom is reachable from its own target in the '
             'support graph (edges: flaw -> the flaws its chosen resolver introduced, disjunctions of rule bodies included; unified atom -> its target); distinct_nontrivial = (configuration, problem) pairs whose solution has a unified atom or a sub-goal',
        assumptions=['needs a build with BUILD_LISTENERS (the executor configuration) to observe the causal graph',
                     'solver runs exceeding the time budget are excluded and counted'],
        make_problems=make, configs_quick=['dbg_exec'], configs_thorough=['dbg_exec', 'rel_exec_hadd_ci', 'dbg_exec_hadd', 'dbg_exec_ci'],
        stat_key='with_unified_or_subgoal')


def replay(path):
    return plancheck.replay_problem(PROP, path)
