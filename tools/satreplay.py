"""Replays the transitions of the implementation-shaped model SatCoreImpl (printed by spec/SatCoreGen.tla, one test per
transition of its state graph) on the real sat_core through net_driver.

Where the library's observable state (answer, value of every variable, decision level) equals the model's after every call,
the execution inherits the invariants TLC proved on the model (two-watched-literal invariant, complete propagation, sound
values and no-goods, false only if unsatisfiable). An execution that deviates from the model is not a violation in itself
(an equally correct implementation may propagate in another order): it is handed to the property-level trace specification
NetworkTrace, which decides."""
import json
import os
import re
import subprocess

import netcheck
import vlib

VAL = {'F': 0, 'T': 1, 'U': 2}


def generate(cfg, rd, timeout, walks=1500):
    """runs TLC on SatCoreGen streaming its output to a file; yields the tests"""
    out = os.path.join(rd, 'gen-%s.txt' % cfg)
    md = os.path.join(rd, 'md-' + cfg)
    cmd = ['java', '-XX:+UseParallelGC', '-Xmx6g', '-Xss64m', '-cp', vlib.TLA_CP, 'tlc2.TLC', '-workers', '1', '-noGenerateSpecTE',
           '-metadir', md, '-config', cfg, 'SatCoreGen.tla']
    sim = 'sim' in cfg      # random walks over the model instead of the exhaustive search
    if sim:
        cmd[cmd.index('-workers') + 1] = '4'
        cmd[-1:-1] = ['-simulate', 'num=%d' % walks, '-depth', '18', '-seed', '20260926']
    with open(out, 'w') as fh:
        try:
            rc = subprocess.run(cmd, cwd=vlib.SPEC, stdout=fh, stderr=subprocess.STDOUT, timeout=timeout).returncode
        except subprocess.TimeoutExpired:
            raise vlib.CheckError('SatCoreGen/%s: timeout' % cfg)
    tail = subprocess.run(['tail', '-n', '12', out], capture_output=True, text=True).stdout
    m = re.search(r'(\d+) states generated, (\d+) distinct states found, 0 states left', tail)
    if sim:
        m = re.search(r'The number of states generated: (\d+)()', tail)
    if rc != 0 or not m:
        raise vlib.CheckError('SatCoreGen/%s failed (rc=%d):\n%s' % (cfg, rc, tail))
    return out, {'module': 'SatCoreGen', 'cfg': cfg, 'states_generated': int(m.group(1)), 'distinct_states': int(m.group(2) or 0)}


def tests_of(path):
    with open(path) as fh:
        for ln in fh:
            if ln.startswith('<<"SATTEST", '):
                yield json.loads(json.loads(ln[len('<<"SATTEST", '):ln.rindex('>>')]))


def lit(l):
    return 2 * abs(l) + (1 if l > 0 else 0)


def js(o):
    return json.dumps(o, separators=(',', ':'))


def translate(t):
    lines = [js({'e': 'reset', 'profile': 'sat', 'dlsize': 16})] + [js({'e': 'new_var'})] * t['nv']
    for o in t['ops']:
        c = o['call']
        if c[0] == 'new_clause':
            lines.append(js({'e': 'new_clause', 'lits': [lit(x) for x in c[1]]}))
        elif c[0] == 'assume':
            lines.append(js({'e': 'assume', 'p': lit(c[1])}))
        elif c[0] == 'check':
            lines.append(js({'e': 'check', 'lits': [lit(x) for x in c[1]]}))
        else:
            lines.append(js({'e': c[0]}))
    return lines


def conforms(t, ex):
    """ex: parsed output lines of the execution (after the reset line); returns None or a description of the deviation"""
    nv = t['nv']
    k = nv          # the first nv lines answer new_var
    for i, o in enumerate(t['ops']):
        if k >= len(ex):
            return 'call %d (%s) was not answered' % (i, o['call'][0])
        out = ex[k]
        k += 1
        c = o['call']
        if out.get('e') != c[0]:
            return 'call %d: expected %s, the driver executed %s' % (i, c[0], out.get('e'))
        if c[0] != 'pop' and 'ret' in out and bool(out['ret']) != bool(c[-1]):
            return 'call %d (%s): the library answered %s, the model %s' % (i, c[0], out['ret'], c[-1])
        if o['obs']['dead']:
            return None       # inconsistent at root level: nothing more is observable
        want = [VAL[x] for x in o['obs']['v']]
        if out['vals'][1:nv + 1] != want:
            return 'call %d (%s): values %s, the model has %s' % (i, c[0], out['vals'][1:nv + 1], want)
        if out['dl'] != o['obs']['dl']:
            return 'call %d (%s): decision level %d, the model has %d' % (i, c[0], out['dl'], o['obs']['dl'])
    return None


def run(ev, prop, tier, cfgs, max_deviating=400, build='dbg', limit=None):
    vlib.build_repo(build, targets=['smt'])
    drv = vlib.build_driver('net_driver', build)
    rd = vlib.run_dir('%s-satimpl' % prop)
    total, exact, deviating, first_dev = 0, 0, [], None
    for cfg in cfgs:
        path, stats = generate(cfg, rd, 900 if tier == 'quick' else 3400, 1500 if tier == 'quick' else 8000)
        stats['what'] = ('test generation: random walks of up to 18 calls over SatCoreImpl (%s)' if 'sim' in cfg else 'test generation: one test per transition of SatCoreImpl (%s)') % cfg
        stats['wall_s'] = 0
        ev.cov['models'].append(stats)
        chunk = []

        def flush():
            nonlocal total, exact, first_dev
            if not chunk:
                return
            all_lines = []
            for t in chunk:
                all_lines += translate(t)
            inp, outp = os.path.join(rd, 'tests.ndjson'), os.path.join(rd, 'out.ndjson')
            if os.path.exists(outp):
                os.remove(outp)
            vlib.write_lines(inp, all_lines)
            rc, o = vlib.run([drv, 'replay', inp, outp], timeout=1800, check=False)
            outs = vlib.split_executions(vlib.read_lines(outp))
            # 3: the driver's handler caught an abort / signal inside the library; a sanitizer report ends the process too
            crashed = rc < 0 or rc >= 128 or rc == 3 or 'Sanitizer' in o or 'runtime error:' in o
            if len(outs) != len(chunk) and not crashed:
                raise vlib.CheckError('replay of the model tests: %d executions for %d tests (rc=%d) %s' % (len(outs), len(chunk), rc, o[-500:]))
            for k, t in enumerate(chunk):
                total += 1
                if k >= len(outs):
                    break     # the driver stopped at the crash: the execution that crashed is the last one, handled below
                ex = [json.loads(x) for x in outs[k][1:]]
                d = conforms(t, ex)
                if crashed and k == len(outs) - 1 and '"e":"abort"' not in outs[k][-1]:
                    outs[k].append(js({'e': 'abort', 'what': ('driver killed, rc=%d ' % rc) + ' | '.join(x for x in o.splitlines() if 'Sanitizer' in x or 'runtime error' in x)[:200]}))
                    d = d or 'the library crashed' 
                if d is None:
                    exact += 1
                else:
                    first_dev = first_dev or d
                    if len(deviating) < max_deviating:
                        deviating.append(outs[k])
            del chunk[:]

        ntests = 0
        for t in tests_of(path):
            chunk.append(t)
            ntests += 1
            if len(chunk) >= 6000:
                flush()
            if limit and ntests >= limit:      # (the transitions come in breadth-first order: the limit keeps the shallow ones)
                break
        flush()
        os.remove(path)
    ev.cov['satimpl_transitions_replayed'] = total
    ev.cov['satimpl_exact_conformance'] = exact
    ev.cov['satimpl_deviating_executions_validated'] = len(deviating)
    if first_dev:
        ev.cov['satimpl_first_deviation'] = first_dev
        vlib.log('[satimpl] %d of %d executions deviate from SatCoreImpl (first: %s): NetworkTrace decides' % (total - exact, total, first_dev))
        flat = [ln for e in deviating for ln in e]
        return vlib.validate_batch(ev, prop, 'NetworkTrace', flat, netcheck.signature, 'satimpl', timeout=1700, env={'VPROP': prop},
                                   describe_fn=netcheck.describe)
    return 0
