"""Shared machinery of /verif/check: building /repo with hooks, building drivers, running TLC, trace validation,
known findings, evidence files."""
import fcntl
import hashlib
import json
import os
import re
import shutil
import subprocess
import sys
import time

VERIF = os.path.dirname(os.path.dirname(os.path.abspath(__file__)))
REPO = os.path.realpath(os.environ.get('VERIF_REPO', '/repo'))
BUILD = os.path.join(VERIF, 'build')
SPEC = os.path.join(VERIF, 'spec')
HARNESS = os.path.join(VERIF, 'harness')
EVIDENCE = os.path.join(VERIF, 'evidence')
FINDINGS = os.path.join(VERIF, 'known_findings.jsonl')
TLA_CP = '/opt/veriftools/tla/tla2tools.jar:/opt/veriftools/tla/CommunityModules-deps.jar'
NCPU = os.cpu_count() or 4

# build configurations of /repo (all with the verification hooks compiled in)
CONFIGS = {
    'dbg': ['-DCMAKE_BUILD_TYPE=Debug'],
    'rel': ['-DCMAKE_BUILD_TYPE=RelWithDebInfo'],
    'dbg_hadd': ['-DCMAKE_BUILD_TYPE=Debug', '-DHEURISTIC_TYPE=h_add'],
    'dbg_ci': ['-DCMAKE_BUILD_TYPE=Debug', '-DCHECK_INCONSISTENCIES=ON'],
    'dbg_hadd_ci': ['-DCMAKE_BUILD_TYPE=Debug', '-DHEURISTIC_TYPE=h_add', '-DCHECK_INCONSISTENCIES=ON'],
    'rel_hadd': ['-DCMAKE_BUILD_TYPE=RelWithDebInfo', '-DHEURISTIC_TYPE=h_add'],
    'rel_ci': ['-DCMAKE_BUILD_TYPE=RelWithDebInfo', '-DCHECK_INCONSISTENCIES=ON'],
    'rel_hadd_ci': ['-DCMAKE_BUILD_TYPE=RelWithDebInfo', '-DHEURISTIC_TYPE=h_add', '-DCHECK_INCONSISTENCIES=ON'],
    'dbg_exec': ['-DCMAKE_BUILD_TYPE=Debug', '-DBUILD_EXECUTOR=ON'],
    'rel_exec': ['-DCMAKE_BUILD_TYPE=RelWithDebInfo', '-DBUILD_EXECUTOR=ON'],
    'dbg_exec_hadd': ['-DCMAKE_BUILD_TYPE=Debug', '-DBUILD_EXECUTOR=ON', '-DHEURISTIC_TYPE=h_add'],
    'dbg_exec_ci': ['-DCMAKE_BUILD_TYPE=Debug', '-DBUILD_EXECUTOR=ON', '-DCHECK_INCONSISTENCIES=ON'],
    'dbg_exec_hadd_ci': ['-DCMAKE_BUILD_TYPE=Debug', '-DBUILD_EXECUTOR=ON', '-DHEURISTIC_TYPE=h_add', '-DCHECK_INCONSISTENCIES=ON'],
    'rel_exec_hadd': ['-DCMAKE_BUILD_TYPE=RelWithDebInfo', '-DBUILD_EXECUTOR=ON', '-DHEURISTIC_TYPE=h_add'],
    'rel_exec_ci': ['-DCMAKE_BUILD_TYPE=RelWithDebInfo', '-DBUILD_EXECUTOR=ON', '-DCHECK_INCONSISTENCIES=ON'],
    'rel_exec_hadd_ci': ['-DCMAKE_BUILD_TYPE=RelWithDebInfo', '-DBUILD_EXECUTOR=ON', '-DHEURISTIC_TYPE=h_add', '-DCHECK_INCONSISTENCIES=ON'],
    'dbg_par': ['-DCMAKE_BUILD_TYPE=Debug', '-DPARALLELIZE=ON'],
    'rel_par': ['-DCMAKE_BUILD_TYPE=RelWithDebInfo', '-DPARALLELIZE=ON'],
    'asan': ['-DCMAKE_BUILD_TYPE=Debug', '-DCMAKE_CXX_FLAGS=-fsanitize=address,undefined -fno-sanitize=vptr -fno-omit-frame-pointer -fno-sanitize-recover=undefined'],
    'tsan_par': ['-DCMAKE_BUILD_TYPE=RelWithDebInfo', '-DPARALLELIZE=ON', '-DCMAKE_CXX_FLAGS=-fsanitize=thread -g'],
}


class CheckError(Exception):
    """A failure of the machinery itself (build error, tool error): exit code 2, never a VIOLATION."""


def log(*a):
    print(*a, file=sys.stderr, flush=True)


def run(cmd, timeout=None, env=None, cwd=None, check=True, stdin=None):
    e = dict(os.environ)
    if env:
        e.update(env)
    try:
        p = subprocess.run(cmd, cwd=cwd, env=e, timeout=timeout, stdout=subprocess.PIPE, stderr=subprocess.STDOUT,
                           input=stdin, text=True, errors='replace')
    except subprocess.TimeoutExpired as ex:
        out = ex.stdout if isinstance(ex.stdout, str) else (ex.stdout or b'').decode(errors='replace')
        return 124, out
    if check and p.returncode != 0:
        raise CheckError('command failed (%d): %s\n%s' % (p.returncode, ' '.join(map(str, cmd)), p.stdout[-4000:]))
    return p.returncode, p.stdout


def _tag():
    return '' if REPO == '/repo' else '-' + hashlib.sha1(REPO.encode()).hexdigest()[:8]


def build_dir(cfg):
    return os.path.join(BUILD, cfg + _tag())


class _Lock:
    def __init__(self, name):
        os.makedirs(BUILD, exist_ok=True)
        self.path = os.path.join(BUILD, name + '.lock')

    def __enter__(self):
        self.f = open(self.path, 'w')
        fcntl.flock(self.f, fcntl.LOCK_EX)
        return self

    def __exit__(self, *a):
        fcntl.flock(self.f, fcntl.LOCK_UN)
        self.f.close()


def build_repo(cfg, targets=None):
    """(Re)builds REPO's current working tree in configuration cfg with the hooks on; incremental (ninja)."""
    bd = build_dir(cfg)
    with _Lock(os.path.basename(bd)):
        t0 = time.time()
        if not os.path.exists(os.path.join(bd, 'build.ninja')):
            run(['cmake', '-G', 'Ninja', '-S', REPO, '-B', bd, '-DORATIO_VERIF=ON', '-DBUILD_TESTING=OFF',
                 '-Wno-dev', '-Wno-deprecated'] + CONFIGS[cfg], timeout=300)
        cmd = ['cmake', '--build', bd, '-j', str(NCPU)]
        if targets:
            cmd += ['--target'] + list(targets)
        rc, out = run(cmd, timeout=1500, check=False)
        if rc != 0:
            raise CheckError('build of %s (%s) failed:\n%s' % (REPO, cfg, out[-6000:]))
        log('[build] %s %s %.1fs' % (cfg, REPO, time.time() - t0))
    return bd


INCLUDES = ['smt', 'smt/arith', 'smt/arith/lra', 'smt/arith/dl', 'smt/ov', 'smt/json', 'smt/concurrent', 'riddle', 'core',
            'solver', 'solver/flaws', 'solver/types', 'solver/heuristics', 'executor']
BIN_INCLUDES = ['smt', 'smt/json', 'smt/concurrent', 'riddle', 'core', 'solver', 'executor']


def build_driver(name, cfg, libs=('smt', 'json'), defines=(), extra_flags=()):
    """Compiles harness/<name>.cpp against the hooked build of REPO in configuration cfg."""
    bd = build_dir(cfg)
    outp = os.path.join(bd, 'verif_' + name)
    src = os.path.join(HARNESS, name + '.cpp')
    with _Lock(os.path.basename(bd) + '-' + name):
        depfile = outp + '.d'
        deps = [src]
        if os.path.exists(depfile):
            txt = open(depfile).read().replace('\\\n', ' ')
            deps += [d for d in txt.split(':', 1)[-1].split() if d]
        libfiles = [os.path.join(bd, 'lib', 'lib%s.so' % l) for l in libs]
        try:
            newest = max(os.path.getmtime(p) for p in deps + [p for p in libfiles if os.path.exists(p)])
        except OSError:
            newest = float('inf')
        if os.path.exists(outp) and os.path.exists(depfile) and os.path.getmtime(outp) >= newest:
            return outp
        flags = ['-std=c++17', '-g', '-O1', '-DORATIO_VERIF']
        cfgopts = ' '.join(CONFIGS[cfg])
        if 'BUILD_EXECUTOR=ON' in cfgopts:
            flags += ['-DBUILD_LISTENERS']
        if 'PARALLELIZE=ON' in cfgopts:
            flags += ['-DPARALLELIZE', '-pthread']
        m = re.search(r'-DCMAKE_CXX_FLAGS=(.*)', cfgopts)
        for o in CONFIGS[cfg]:
            if o.startswith('-DCMAKE_CXX_FLAGS='):
                flags += o[len('-DCMAKE_CXX_FLAGS='):].split()
        flags += ['-D%s' % d for d in defines] + list(extra_flags)
        cmd = ['g++'] + flags + ['-MMD', '-MF', depfile, '-I' + HARNESS]
        cmd += ['-I' + os.path.join(REPO, i) for i in INCLUDES] + ['-I' + os.path.join(bd, i) for i in BIN_INCLUDES]
        cmd += [src, '-L' + os.path.join(bd, 'lib')] + ['-l' + l for l in libs]
        cmd += ['-Wl,-rpath,' + os.path.join(bd, 'lib'), '-lrapidcheck', '-o', outp]
        t0 = time.time()
        rc, out = run(cmd, timeout=600, check=False)
        if rc != 0:
            raise CheckError('driver %s failed to compile:\n%s' % (name, out[-6000:]))
        log('[driver] %s/%s %.1fs' % (cfg, name, time.time() - t0))
    return outp


def run_dir(name):
    d = os.path.join(BUILD, 'run', name + _tag())
    shutil.rmtree(d, ignore_errors=True)
    os.makedirs(d)
    return d


# ---------------------------------------------------------------------------------------------------------------------
# TLC
# ---------------------------------------------------------------------------------------------------------------------
_TLC_SEQ = __import__('itertools').count()


def tlc(module, cfg=None, env=None, workers=1, timeout=900, metadir=None, simulate=None, depth=None, xmx='6g',
        deque=False, coverage=False, extra=()):
    """Runs TLC on spec/<module>.tla. Returns a dict with the parsed statistics and the raw output."""
    cfg = cfg or module + '.cfg'
    metadir = metadir or os.path.join(BUILD, 'run', 'tlc-%s-%d-%d' % (module, os.getpid(), next(_TLC_SEQ)))
    shutil.rmtree(metadir, ignore_errors=True)
    os.makedirs(metadir, exist_ok=True)
    jvm = ['java', '-XX:+UseParallelGC', '-Xmx' + xmx, '-Xss64m']
    if deque:
        jvm += ['-Dtlc2.tool.queue.IStateQueue=StateDeque']
    cmd = jvm + ['-cp', TLA_CP, 'tlc2.TLC', '-workers', str(workers), '-noGenerateSpecTE', '-metadir', metadir,
                 '-config', cfg]
    if simulate:
        cmd += ['-simulate', simulate]
    if depth:
        cmd += ['-depth', str(depth)]
    if coverage:
        cmd += ['-coverage', '1']
    cmd += list(extra) + [module + '.tla']
    t0 = time.time()
    rc, out = run(cmd, timeout=timeout, env=env, cwd=SPEC, check=False)
    shutil.rmtree(metadir, ignore_errors=True)
    res = {'rc': rc, 'out': out, 'wall_s': time.time() - t0, 'module': module, 'cfg': cfg}
    m = re.search(r'(\d+) states generated, (\d+) distinct states found', out)
    res['generated'] = int(m.group(1)) if m else 0
    res['distinct'] = int(m.group(2)) if m else 0
    m = re.search(r'The depth of the complete state graph search is (\d+)', out)
    res['depth'] = int(m.group(1)) if m else 0
    res['contracts'] = re.findall(r'<<"CONTRACT", "(\w+)", (\d+)>>', out)
    mm = re.findall(r'<<"MATCHED", (\d+), (\d+)>>', out)
    if mm:
        res['matched'], res['total'] = int(mm[-1][0]), int(mm[-1][1])
    res['timeout'] = rc == 124
    res['parse_error'] = ('Parsing or semantic analysis failed' in out) or ('Could not find' in out and 'module' in out)
    res['invariant_violated'] = re.findall(r'Invariant (\S+) is violated', out)
    res['property_violated'] = ('Temporal properties were violated' in out) or bool(
        re.search(r'Action property \S+ is violated', out))
    res['deadlock'] = 'Deadlock reached' in out
    res['eval_error'] = bool(re.search(r'Error: (The|TLC threw|Evaluating|Attempted|In evaluation)', out)) or (
            'java.lang' in out and 'Exception' in out) or 'StackOverflowError' in out
    res['no_error'] = 'Model checking completed. No error has been found' in out or (
            simulate is not None and rc in (0, 124) and not res['invariant_violated'] and not res['eval_error'])
    if coverage:
        res['actions'] = {}
        for a, taken, gen in re.findall(r'<(\w+) line \d+, col \d+ to line \d+, col \d+ of module \w+>: (\d+):(\d+)', out):
            t, g = res['actions'].get(a, (0, 0))
            res['actions'][a] = (t + int(taken), g + int(gen))
    return res


def model_check(module, cfg=None, workers=None, timeout=900, expect_actions=None, **kw):
    """Exhaustive TLC run that must complete without error. Returns the stats; raises CheckError on tool errors.
    The caller decides what a violated invariant means (it is a property violation of the *model*)."""
    r = tlc(module, cfg, workers=workers or NCPU, timeout=timeout, coverage=bool(expect_actions), **kw)
    if r['parse_error'] or (r['eval_error'] and not r['invariant_violated']):
        raise CheckError('TLC failed on %s/%s:\n%s' % (module, r['cfg'], r['out'][-5000:]))
    if r['timeout']:
        raise CheckError('TLC timed out on %s/%s after %ss' % (module, r['cfg'], timeout))
    if expect_actions:
        for a in expect_actions:
            if r['actions'].get(a, (0, 0))[0] == 0:
                raise CheckError('vacuous model: action %s of %s/%s never taken\n%s' % (a, module, r['cfg'], r['out'][-3000:]))
    return r


def validate_trace(module, trace, cfg=None, timeout=900, deque=False, xmx='8g', env=None):
    """Validates one NDJSON trace file against spec/<module>.tla (a *Trace spec with POSTCONDITION Accepted).
    Returns (accepted, matched_lines, total_lines, tlc_result)."""
    e = {'TRACE': trace}
    if env:
        e.update(env)
    r = tlc(module, cfg, env=e, workers=1, timeout=timeout, deque=deque, xmx=xmx)
    if r['parse_error'] or r['timeout'] or ('matched' not in r and 'Overflow when computing' not in r['out']):
        raise CheckError('trace validation with %s failed to run (rc=%s, timeout=%s):\n%s' % (
            module, r['rc'], r['timeout'], r['out'][-5000:]))
    r['overflow'] = 'Overflow when computing' in r['out']
    if r['overflow']:
        # TLC integers are 32-bit: the line being evaluated has numbers too wide for the oracle. TLC prints the
        # behaviour up to that point; the number of states it lists is the number of lines consumed so far
        ls = re.findall(r'^/\\ l = (\d+)', r['out'], re.M)
        r['matched'] = (int(ls[-1]) - 1) if ls else 0
        return False, r['matched'], r['total'] if 'total' in r else 0, r
    if r['eval_error'] and not r['invariant_violated']:
        # an evaluation error inside the trace spec is a machinery problem unless it is how a rejection shows up
        raise CheckError('TLC evaluation error while validating with %s:\n%s' % (module, r['out'][-5000:]))
    accepted = r['matched'] == r['total'] and not r['invariant_violated']
    return accepted, r['matched'], r['total'], r


# ---------------------------------------------------------------------------------------------------------------------
# traces: executions separated by {"e":"reset"} lines
# ---------------------------------------------------------------------------------------------------------------------
def read_lines(path):
    """Lines of a recorded trace. A line that is not a JSON object (a driver whose memory was corrupted by the code under
    test writes such lines) is replaced by a {"e":"garbage"} event, which no trace specification accepts."""
    out = []
    with open(path, errors='replace') as f:
        for ln in f:
            ln = ln.rstrip('\n')
            if not ln.strip():
                continue
            try:
                if not isinstance(json.loads(ln), dict):
                    raise ValueError
            except ValueError:
                ln = json.dumps({'e': 'garbage', 'raw': ln[:200]}, separators=(',', ':'))
            out.append(ln)
    return out


def split_executions(lines, reset_key='"e":"reset"'):
    """Splits trace lines into executions; each execution starts with its reset line (if any)."""
    execs, cur = [], []
    for ln in lines:
        # consecutive reset lines (several expectation lines of one problem) head the same execution
        if reset_key in ln and cur and reset_key not in cur[-1]:
            execs.append(cur)
            cur = []
        cur.append(ln)
    if cur:
        execs.append(cur)
    return execs


def write_lines(path, lines):
    with open(path, 'w') as f:
        for ln in lines:
            f.write(ln + '\n')


# ---------------------------------------------------------------------------------------------------------------------
# known findings
# ---------------------------------------------------------------------------------------------------------------------
def load_findings(prop):
    """Open findings for a property: list of dicts with 'signature' (a regular expression matched against the
    signature computed from a rejected case) and 'what'. Fixed entries suppress nothing."""
    res = []
    if os.path.exists(FINDINGS):
        for ln in open(FINDINGS):
            ln = ln.strip()
            if not ln or ln.startswith('#'):
                continue
            j = json.loads(ln)
            if j.get('status') == 'open' and prop in j.get('properties', [j.get('property')]):
                res.append(j)
    return res


def match_finding(findings, signature):
    for f in findings:
        if re.fullmatch(f['signature'], signature):
            return f
    return None


# ---------------------------------------------------------------------------------------------------------------------
# evidence
# ---------------------------------------------------------------------------------------------------------------------
class Evidence:
    def __init__(self, prop, tier, seed, level):
        self.prop, self.tier, self.seed, self.level = prop, tier, seed, level
        self.t0 = time.time()
        self.cov = {'states': 0, 'transitions': 0, 'traces_validated_against_impl': 0, 'evaluations': 0,
                    'distinct_nontrivial': 0, 'samples': [], 'models': [], 'rule': ''}
        self.assumptions = []
        self.violations = 0
        self.known = []

    def add_model(self, r, what=''):
        self.cov['states'] += r['distinct']
        self.cov['transitions'] += r['generated']
        m = {'module': r['module'], 'cfg': r['cfg'], 'distinct_states': r['distinct'], 'states_generated': r['generated'],
             'depth': r['depth'], 'wall_s': round(r['wall_s'], 1), 'what': what}
        if 'actions' in r:
            m['actions_taken'] = {a: t for a, (t, g) in r['actions'].items()}
        self.cov['models'].append(m)

    def add_trace_run(self, r, executions, lines):
        self.cov['states'] += r['distinct']
        self.cov['transitions'] += r['generated']
        self.cov['traces_validated_against_impl'] += executions
        self.cov['evaluations'] += lines

    def sample(self, s, limit=4):
        if len(self.cov['samples']) < limit:
            self.cov['samples'].append(s)

    def write(self):
        os.makedirs(EVIDENCE, exist_ok=True)
        cov = dict(self.cov)
        if not cov['samples']:
            cov['samples'] = ['(no case explored)']
        j = {'property_id': self.prop, 'tier': self.tier, 'seed': self.seed, 'level': self.level, 'coverage': cov,
             'assumptions': self.assumptions, 'wall_s': round(time.time() - self.t0, 1), 'violations': self.violations,
             'known_findings_hit': self.known, 'repo': REPO}
        tmp = os.path.join(EVIDENCE, '.%s.%d.tmp' % (self.prop, os.getpid()))
        with open(tmp, 'w') as f:
            json.dump(j, f, indent=1)
        os.replace(tmp, os.path.join(EVIDENCE, self.prop + '.json'))


def violation(prop, replay_path, msg=''):
    if msg:
        log('[violation] ' + msg)
    print('VIOLATION property=%s replay=%s' % (prop, replay_path), flush=True)


def known_finding(prop, what):
    print('KNOWN-FINDING: property=%s %s' % (prop, what), flush=True)


def keep_replay(prop, name, lines):
    d = os.path.join(VERIF, 'replays')
    os.makedirs(d, exist_ok=True)
    p = os.path.join(d, '%s-%s.ndjson' % (prop, name))
    write_lines(p, lines)
    return p


# ---------------------------------------------------------------------------------------------------------------------
# validating a batch of executions, with known findings and confirmation of rejections
# ---------------------------------------------------------------------------------------------------------------------
def validate_batch(ev, prop, module, lines, signature_fn, name, cfg=None, timeout=900, deque=False, env=None,
                   reset_key='"e":"reset"', describe_fn=None, chunk_lines=2500, jobs=None, groups=None):
    """Validates the executions in 'lines' (separated by reset lines) with trace spec 'module'.
    The executions are cut into chunks of about chunk_lines lines that are validated concurrently (one TLC each); a chunk
    with a rejection is then gone through again in order:
    a rejected execution whose signature matches an open known finding is reported as KNOWN-FINDING and skipped;
    any other rejection is re-validated in isolation and, if it repeats, reported as a VIOLATION.
    Returns the number of violations found (0 or 1: the batch stops at the first one)."""
    # groups: the executions already separated by the caller (lists of lines); otherwise they are cut at the reset lines
    execs = [list(g) for g in groups] if groups is not None else split_executions(lines, reset_key)
    chunks, cur, n = [], [], 0
    for e in execs:
        cur.append(e)
        n += len(e)
        if n >= chunk_lines:
            chunks.append(cur)
            cur, n = [], 0
    if cur:
        chunks.append(cur)
    if len(chunks) <= 1:
        return _validate_seq(ev, prop, module, execs, 0, signature_fn, name, cfg, timeout, deque, env, describe_fn)
    rd = os.path.join(BUILD, 'run', '%s-%s%s' % (prop, name, _tag()))
    os.makedirs(rd, exist_ok=True)

    def one(i):
        path = os.path.join(rd, 'chunk-%d.ndjson' % i)
        write_lines(path, [ln for e in chunks[i] for ln in e])
        try:
            return validate_trace(module, path, cfg=cfg, timeout=timeout, deque=deque, env=env, xmx='4g')
        finally:
            if os.path.exists(path):
                os.remove(path)
    from concurrent.futures import ThreadPoolExecutor
    with ThreadPoolExecutor(max_workers=jobs or max(2, min(6, NCPU // 2))) as ex:
        results = list(ex.map(one, range(len(chunks))))
    base = 0
    for i, (ok, matched, total, r) in enumerate(results):
        if ok:
            ev.add_trace_run(r, len(chunks[i]), total)
            if i == 0:
                for e in chunks[i][:2]:
                    ev.sample({'trace': name, 'first_lines': e[:6], 'lines': len(e)})
        else:
            v = _validate_seq(ev, prop, module, chunks[i], base, signature_fn, name, cfg, timeout, deque, env, describe_fn)
            if v:
                return v
        base += len(chunks[i])
    return 0


def _validate_seq(ev, prop, module, execs, base, signature_fn, name, cfg, timeout, deque, env, describe_fn):
    findings = load_findings(prop)
    rd = os.path.join(BUILD, 'run', '%s-%s%s' % (prop, name, _tag()))
    os.makedirs(rd, exist_ok=True)
    start = 0
    while start < len(execs):
        batch = execs[start:]
        flat = [ln for e in batch for ln in e]
        path = os.path.join(rd, 'batch.ndjson')
        write_lines(path, flat)
        ok, matched, total, r = validate_trace(module, path, cfg=cfg, timeout=timeout, deque=deque, env=env)
        if ok:
            ev.add_trace_run(r, len(batch), total)
            for e in batch[:2]:
                ev.sample({'trace': name, 'first_lines': e[:6], 'lines': len(e)})
            return 0
        # locate the rejected line
        acc, k = 0, 0
        while k < len(batch) and acc + len(batch[k]) <= matched:
            acc += len(batch[k])
            k += 1
        if k >= len(batch):  # an invariant failed on the last state
            k = len(batch) - 1
            acc -= len(batch[k])
        bad_exec = batch[k]
        bad_idx = min(matched - acc, len(bad_exec) - 1)
        bad_line = bad_exec[bad_idx]
        ev.add_trace_run(r, k, acc)
        try:
            sig = signature_fn(json.loads(bad_line), bad_exec, bad_idx, r)
        except Exception as ex:  # noqa
            sig = 'unparsable:' + str(ex)
        if r['invariant_violated']:
            sig += '/invariant:' + ','.join(r['invariant_violated'])
        if r.get('overflow'):
            ev.cov['executions_dropped_tlc_overflow'] = ev.cov.get('executions_dropped_tlc_overflow', 0) + 1
            log('[overflow] execution %d of %s has numbers too wide for TLC (32-bit): skipped' % (base + start + k, name))
            start += k + 1
            continue
        f = match_finding(findings, sig)
        if f:
            if f['signature'] not in [x['signature'] for x in ev.known]:
                known_finding(prop, '%s [%s]' % (f['what'], f['signature']))
                ev.known.append({'signature': f['signature'], 'what': f['what'], 'example': bad_line[:300]})
            start += k + 1
            continue
        if os.environ.get('VERIF_COLLECT'):  # exploration aid (never used by registered commands): list and go on
            log('[collect] %s :: %s' % (sig, bad_line[:260]))
            start += k + 1
            continue
        # confirm in isolation
        solo = bad_exec[:bad_idx + 1]
        spath = os.path.join(rd, 'solo.ndjson')
        write_lines(spath, solo)
        ok2, m2, t2, r2 = validate_trace(module, spath, cfg=cfg, timeout=timeout, deque=deque, env=env)
        if ok2:
            raise CheckError('rejection of %s line %d did not repeat in isolation (signature %s): machinery problem\n%s'
                             % (name, matched + 1, sig, bad_line))
        rp = keep_replay(prop, name, solo)
        ev.violations += 1
        ev.sample({'violating_line': bad_line, 'signature': sig, 'replay': rp})
        desc = describe_fn(json.loads(bad_line), bad_exec, bad_idx, r) if describe_fn else ''
        violation(prop, rp, 'spec %s rejects line %d of execution %d of %s: %s  signature=%s %s' % (
            module, bad_idx + 1, base + start + k, name, bad_line[:400], sig, desc))
        return 1
    return 0
