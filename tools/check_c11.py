"""C11 - a linear-relation literal means exactly its relation."""
import netcheck

PROP = 'C11'


def run(tier, seed):
    return netcheck.run_net(PROP, tier, seed,
        profiles=[('lra', 150, 1500, 40)],
        rule='(00) every transition of the implementation-shaped model LraImpl (assertion, bound, pivot, push / pop; spec/LraGen.tla) replayed on lra_theory: the literals of the relations requested at the start keep their meaning under every later assertion - a lemma that decides a requested literal must be entailed; (0) every transition of the state graph of the implementation-shaped model LraCreate (new_var(lin) with its two lookups, the substitution of the slack variables by their rows, the constant case and the fresh slack variable with the bounds / value of its expression; new_lt / new_leq / new_geq / new_gt as written - the bound with its infinitesimal, the constant answers decided by the bounds of the expression and of the slack variable, the assertion cache -, new_eq as the conjunction built by the sat core; spec/LraCreateGen.tla prints one test per transition) replayed on the real lra_theory: the variable / literal answered, the number of propositional variables and the bounds and value of every arithmetic variable compared with the model after every call; deviating executions are decided by NetworkTrace; '
             'seeded requests of <, <=, =, >=, > between linear expressions (constants, repeated and cancelling variables, '
             'derived variables that are basic in the tableau, rational coefficients) before and after root-level constraints '
             'tightened the bounds; a returned constant must be entailed in every model (Fourier-Motzkin), a returned literal '
             'is given its relation as meaning and every later value, bound, learnt clause and answer is judged against it; a '
             'request never changes the set of models; distinct_nontrivial = distinct executions with a relation request',
        models=[('MC_LraCreate', 'MC_LraCreate_A.cfg', 'MC_LraCreate_A.cfg',
                 'implementation-shaped model of the creation-time logic of lra_theory on top of the model of the sat core constructors: RelationMeaning (on every grid point of the box the answer - constant, assertion literal with its infinitesimal, conjunction - holds exactly where the requested relation does), SlackConsistent, RowsOverPlain over every request with coefficients in -1..2 over 2 plain variables and an optional derived one, under 4 boxes of bounds', None),
                ('MC_LraCreate', 'MC_LraCreate_B.cfg', 'MC_LraCreate_B.cfg',
                 'the same model, two requests in a row from a pool of expressions that share slack variables and assertions (same expression with another operator / constant, scaled, negated, over a derived variable)', None)],
        lracreate=(['LraCreateGen_A.cfg', 'LraCreateGen_B.cfg'], ['LraCreateGen_A.cfg', 'LraCreateGen_B.cfg']),
        lraimpl=(['LraGen_A.cfg'], ['LraGen_A.cfg', 'LraGen_B.cfg']),
        release_too=True,
        assumptions=['at most 6 theory atoms and 5 arithmetic variables per execution'])


def replay(path):
    return netcheck.replay(PROP, path)
