"""C11 - a linear-relation literal means exactly its relation."""
import netcheck

PROP = 'C11'


def run(tier, seed):
    return netcheck.run_net(PROP, tier, seed,
        profiles=[('lra', 150, 1500, 40)],
        rule='seeded requests of <, <=, =, >=, > between linear expressions (constants, repeated and cancelling variables, '
             'derived variables that are basic in the tableau, rational coefficients) before and after root-level constraints '
             'tightened the bounds; a returned constant must be entailed in every model (Fourier-Motzkin), a returned literal '
             'is given its relation as meaning and every later value, bound, learnt clause and answer is judged against it; a '
             'request never changes the set of models; distinct_nontrivial = distinct executions with a relation request',
        release_too=True,
        assumptions=['at most 6 theory atoms and 5 arithmetic variables per execution'])


def replay(path):
    return netcheck.replay(PROP, path)
