"""C19 - the executor dispatches the plan in time order and keeps it valid."""
import json
import os
import random
import gen_problems
import plancheck
import vlib
from vlib import Evidence

PROP = 'C19'
LIBS = ('executor', 'solver', 'core', 'riddle', 'smt', 'json')
POLICIES = [(0, 0, 0), (35, 0, 0), (0, 35, 0), (25, 25, 0), (20, 20, 12), (60, 60, 0)]


def run(tier, seed):
    ev = Evidence(PROP, tier, seed, 'model_checking')
    ev.cov['rule'] = ('(0) the tick protocol as a state machine (ExecProto.tla) model-checked for every client behaviour on small plans; (1) solved plans (the execution example, the repository state-variable / resource examples, feasible timeline shapes '
                      'from PlanGen.tla, temporal and causal families) executed tick by tick by the real executor with a scripted '
                      'client (plus plans built so that re-planning after a failure presses a delayed atom back in time, run under many seeds of a client that delays starts often and injects failures) that, by seed, asks to delay starting / ending atoms by 1-2 units from the starting / ending '
                      'callbacks and injects failures between ticks; every callback is recorded with the values at that moment and '
                      'ExecutorTrace (in PlanTrace.tla) checks: time advances by exactly one unit per tick(), each atom is started '
                      'once and ended once, start before end, never before the current time reached its planned time, never in a '
                      'tick() call in which a delay was requested for it, started / ended atoms keep their frozen times in every '
                      'later plan, a start that the client delayed is never planned earlier than the delayed time in any later plan until the atom starts, everything due has been dispatched at the end, and every adapted plan (after a delay or failure) '
                      'passes the Plan validity predicates again; distinct_nontrivial = executions with at least one delay or failure')
    ev.assumptions = ['delays are whole multiples of the tick unit (Appendix B of DESIGN.md)',
                      'an execution_exception (the plan cannot be adapted) ends an execution and is not a violation']
    try:
        # the tick protocol as a state machine (spec/ExecProto.tla): every client behaviour on small plans
        q = tier == 'quick'
        for cfg, what in (('MC_ExecProto_quick.cfg' if q else 'MC_ExecProto.cfg', 'tick protocol: every client behaviour (delays of starts / ends, one failure) on a plan of 2 (quick) / 3 (thorough) atoms: StartedBeforeEnded, NotBeforeItsTime, NothingStartedMoved, DelayedStartKept, EverythingDispatched'),
                          ('MC_ExecProto_live.cfg', 'tick protocol: a tick() call always returns (TickReturns under weak fairness of Look / Dispatch)')):
            r = vlib.model_check('MC_ExecProto', cfg, timeout=280 if q else 3000)
            ev.add_model(r, what)
            if r['invariant_violated'] or r['property_violated'] or not r['no_error']:
                rp = os.path.join(vlib.VERIF, 'replays', '%s-ExecProto.out' % PROP)
                os.makedirs(os.path.dirname(rp), exist_ok=True)
                open(rp, 'w').write(r['out'])
                ev.violations += 1
                vlib.violation(PROP, rp, 'model ExecProto/%s violates %s' % (cfg, r['invariant_violated'] or 'a temporal property'))
                return 1
        # non-vacuity, and the open finding in model form: if re-planning may put an atom that has not started in the past,
        # the invariants must fail
        r = vlib.tlc('MC_ExecProto', 'MC_ExecProto_pastplan.cfg', workers=4, timeout=600)
        if not r['invariant_violated']:
            raise vlib.CheckError('ExecProto with FutureOnly = FALSE does not violate its invariants: the model is vacuous')
        ev.cov['pastplan_model_violates'] = r['invariant_violated']
        rd = vlib.run_dir(PROP)
        shapes, r = gen_problems.plangen_shapes(2, rd)
        ev.add_model(r, 'PlanGen: enumeration of small timeline problems (feasible ones are executed)')
        rnd = random.Random(seed)
        feas = [s for s in shapes if s['feasible']]
        named = [(gen_problems.shape_name(s), gen_problems.render_timeline(s)) for s in rnd.sample(feas, 40 if tier == 'quick' else 400)]
        named += [(n, t) for n, t, ok in gen_problems.temporal_family() if ok][:: (3 if tier == 'quick' else 1)]
        named += [(n, t) for n, t, ok in gen_problems.causal_family() if 'temporal' in n]
        problems = plancheck.write_problems(rd, named)
        import gen_features
        pressure = plancheck.write_feature_problems(rd, gen_features.exec_pressure_family())
        problems += [p for p in plancheck.repo_problems() if p[0].startswith(('execution', 'SVTest', 'RRTest', 'SolverTest09', 'SolverTest1'))]
        if tier == 'thorough':
            problems += [p for p in plancheck.repo_problems() if p[0].startswith(('GOAC_1', 'Matera_0', 'Logistics'))]
        # every problem under several client policies
        runs = []
        pol = {}
        for name, files in problems:
            for k, (pds, pde, pf) in enumerate(POLICIES if tier == 'thorough' else POLICIES[:5]):
                rn = '%s@p%d' % (name, k)
                runs.append((rn, files))
                pol[rn] = ['--exec', str(seed * 100 + k), str(pds), str(pde), str(pf), '24' if tier == 'quick' else '40']
        # re-planning under pressure: starts delayed often (so that the same atom is delayed repeatedly), failures injected
        for name, files in (pressure if tier == 'thorough' else pressure[::2]):
            for k in range(8 if tier == 'quick' else 24):
                rn = '%s@q%d' % (name, k)
                runs.append((rn, files))
                pol[rn] = ['--exec', str(seed * 1000 + 17 * k), '60', '0', '15', '40']
        # systematic scripted clients: for the atoms of rank 0..2 every combination of "start delayed 0 / 1 / 2 times by 2",
        # "ends delayed once or never", "no failure or the failure of one atom at tick 3 / 6 / 9 / 12"
        import itertools
        slack = [p for p in pressure if p[0].startswith('fe_slack')]
        line = [p for p in pressure if p[0].startswith('fe_line')]
        early = [p for p in pressure if p[0].startswith('fe_early')]
        early_q = [p for p in early if p[0] in ('fe_early_impulse_4_fact_class',)]
        frozen = [p for p in pressure if p[0].startswith('fe_frozen')]
        endfrozen = [p for p in pressure if p[0].startswith('fe_endfrozen')]
        scripted = ((slack[:2] + line[:1] + early_q + frozen[:1] + endfrozen[:2]) if tier == 'quick' else (slack + line[:4] + early[::3] + frozen + endfrozen)) + [p for p in problems if p[0].startswith('execution')][:1 if tier == 'quick' else 3]
        for name, files in scripted:
            k = 0
            for sd in itertools.product((0, 1, 2), repeat=3):
                for ed in (0, 1):
                    for fail in [None] + [(t, r) for t in (3, 6, 9, 12) for r in (0, 1, 2)]:
                        if tier == 'quick' and (sum(sd) + ed + (fail is not None) < 2 or (k % 4)):
                            k += 1
                            continue
                        k += 1
                        spec = ','.join(['s%d=%dx%d' % (r, c, 5 if (c == 1 and k % 2) else 2) for r, c in enumerate(sd) if c] + ['e%d=1x1' % r for r in range(3) if ed] +
                                        (['f=%d:%d' % fail] if fail else [])) or 's9=0x1'
                        rn = '%s@s%d' % (name, k)
                        runs.append((rn, files))
                        pol[rn] = ['--xscript', spec, '40']
        plancheck.remember(runs)
        vlib.build_repo('dbg_exec')
        drv = vlib.build_driver('exec_driver', 'dbg_exec', libs=LIBS)
        res = plancheck.run_problems(drv, runs, os.path.join(rd, 'exec'), 20 if tier == 'quick' else 60, extra_args=lambda n: pol[n])
        nontrivial = sum(1 for n, ls in res if any('"x_dont_' in ln or '"x_failure"' in ln for ln in ls))
        stats = {'executions': len(res), 'with_delay_or_failure': nontrivial,
                 'ended_by_execution_exception': sum(1 for n, ls in res if any('"x_exception"' in ln for ln in ls)),
                 'ticks': sum(1 for n, ls in res for ln in ls if '"x_tick"' in ln),
                 'starts': sum(1 for n, ls in res for ln in ls if '"x_start"' in ln),
                 'adapted_plans_validated': sum(1 for n, ls in res for ln in ls[1:] if '"e":"solution"' in ln)}
        ev.cov.update(stats)
        ev.cov['distinct_nontrivial'] = nontrivial
        for n, ls in res:
            if any('"x_dont_' in ln for ln in ls):
                ev.sample({'execution': n, 'events': [ln[:200] for ln in ls if '"e":"x_' in ln and '"x_plan"' not in ln][:14]})
                break
        plancheck.validate_results(ev, PROP, res, 'exec')
    finally:
        ev.write()
    return 1 if ev.violations else 0


def replay(path):
    return plancheck.replay_problem(PROP, path)
