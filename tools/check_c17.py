"""C17 - object-oriented RIDDLE semantics: domains, fields, inheritance."""
import json
import os
import plancheck
import vlib
from vlib import Evidence

PROP = 'C17'

FIXED = [
    # constructors, initialiser lists, field initialisers, enum unions: (name, text, [(var, kind, value)])
    ('oo_fields', 'class P { real a = 1.0 + 2.0; real b; real c; P(real b) : b(b), c(b + 1.0) {} }\nP p = new P(5.0);\nreal r1; r1 == p.a;\nreal r2; r2 == p.b;\nreal r3; r3 == p.c;\n',
     [('r1', [3, 1]), ('r2', [5, 1]), ('r3', [6, 1])]),
    ('oo_inherit_fields', 'class A { real id; real k = 2.0; A(real id) : id(id) {} }\nclass B : A { real m; B(real id, real m) : A(id), m(m) {} }\nB b = new B(4.0, 9.0);\nreal r1; r1 == b.id;\nreal r2; r2 == b.k;\nreal r3; r3 == b.m;\n',
     [('r1', [4, 1]), ('r2', [2, 1]), ('r3', [9, 1])]),
    ('oo_nested', 'class Out { real f = 1.0; class In { real g = 2.0; } In in = new In(); }\nOut o = new Out();\nreal r1; r1 == o.f;\nreal r2; r2 == o.in.g;\n',
     [('r1', [1, 1]), ('r2', [2, 1])]),
    ('oo_chain', 'class A { real id; A(real id) : id(id) {} }\nclass H { A ref; H(A ref) : ref(ref) {} }\nclass K { H h; K(H h) : h(h) {} }\nA a = new A(3.0);\nH h = new H(a);\nK k = new K(h);\nreal r1; r1 == k.h.ref.id;\n',
     [('r1', [3, 1])]),
    ('oo_nested_super', 'class Fleet { real size = 0.0; class Unit { real id = 7.0; Unit() {} Unit(real id) : id(id) {} } }\nclass Truck : Fleet.Unit { real w; Truck(real id, real w) : Unit(id), w(w) {} }\nFleet f = new Fleet();\nFleet.Unit u0 = new Fleet.Unit(1.0);\nTruck t1 = new Truck(2.0, 3.5);\nTruck t2 = new Truck(3.0, 4.5);\nreal r1; r1 == t1.id;\nreal r2; r2 == t2.id;\nreal r3; r3 == t1.w;\nreal r4; r4 == u0.id;\nFleet.Unit d = new Fleet.Unit();\nreal r5; r5 == d.id;\n',
     [('r1', [2, 1]), ('r2', [3, 1]), ('r3', [7, 2]), ('r4', [1, 1]), ('r5', [7, 1])]),
    ('oo_two_supers', 'class A { real a; A(real a) : a(a) {} }\nclass B { real b = 4.0; B() {} B(real b) : b(b) {} }\nclass C : A, B { real c; C(real x) : A(x), B(x + 1.0), c(x + 2.0) {} }\nC o = new C(1.0);\nreal r1; r1 == o.a;\nreal r2; r2 == o.b;\nreal r3; r3 == o.c;\n',
     [('r1', [1, 1]), ('r2', [2, 1]), ('r3', [3, 1])]),
    # a field of the second / third supertype reached through an object VARIABLE (several candidates): the constraint on the
    # field decides which instance the variable denotes, the field of the chosen instance is read back
    ('oo_var_second_super', 'class Named { real id; Named(real id) : id(id) {} }\nclass Located { real zone; Located(real zone) : zone(zone) {} }\nclass Robot : Named, Located { Robot(real id, real zone) : Named(id), Located(zone) {} }\nRobot ra = new Robot(1.0, 10.0);\nRobot rb = new Robot(2.0, 20.0);\nRobot r;\nr.zone <= 15.0;\nreal r1; r1 == r.zone;\nreal r2; r2 == r.id;\n',
     [('r1', [10, 1]), ('r2', [1, 1])]),
    ('oo_var_third_super', 'class N { real id; N(real id) : id(id) {} }\nclass L { real zone; L(real zone) : zone(zone) {} }\nclass W { real load; W(real load) : load(load) {} }\nclass Robot : N, L, W { Robot(real id, real zone, real load) : N(id), L(zone), W(load) {} }\nRobot ra = new Robot(1.0, 10.0, 7.0);\nRobot rb = new Robot(2.0, 20.0, 3.0);\nRobot rc = new Robot(3.0, 30.0, 5.0);\nRobot r;\nr.load <= 4.0;\nreal r1; r1 == r.load;\nreal r2; r2 == r.zone;\nreal r3; r3 == r.id;\n',
     [('r1', [3, 1]), ('r2', [20, 1]), ('r3', [2, 1])]),
    ('oo_var_super_of_super', 'class Base { real k; Base(real k) : k(k) {} }\nclass Side { real s; Side(real s) : s(s) {} }\nclass Mid : Side, Base { Mid(real s, real k) : Side(s), Base(k) {} }\nclass Leaf : Mid { Leaf(real s, real k) : Mid(s, k) {} }\nLeaf la = new Leaf(1.0, 10.0);\nLeaf lb = new Leaf(2.0, 20.0);\nLeaf l;\nl.k >= 15.0;\nreal r1; r1 == l.k;\nreal r2; r2 == l.s;\n',
     [('r1', [20, 1]), ('r2', [2, 1])]),
]


def make(rd, tier, seed, ev):
    out = os.path.join(rd, 'objgen.ndjson')
    r = vlib.tlc('ObjGen', 'ObjGen.cfg', env={'GEN_OUT': out}, workers=4, timeout=900)
    if not os.path.exists(out) or 'GENERATED' not in r['out']:
        raise vlib.CheckError('ObjGen failed:\n' + r['out'][-3000:])
    ev.add_model(r, 'ObjGen: enumeration of class tables / instance orders / declarations / constraints with the reference semantics')
    cases = [json.loads(l) for l in open(out)]
    if tier == 'quick':
        import random
        random.Random(seed).shuffle(cases)
        cases = [c for c in cases if c.get('fam') not in ('range', 'enum', 'downcast')][:200] + [c for c in cases if c.get('fam') == 'range'][:150] + [c for c in cases if c.get('fam') in ('enum', 'downcast')]
    named = []
    for i, c in enumerate(cases):
        name = 'ob%04d' % i
        named.append((name, c['text'].replace('; ', ';\n').replace('} ', '}\n')))
        plancheck.EXPECT[name] = [json.dumps({'e': 'expect', 'name': name, 'var': c['var'], 'kind': c['kind'], 'dom0': c['dom0'],
                                              'allowed': c['allowed'], 'sat': c['sat'], 'value': [0, 1], 'bvalue': 0}, separators=(',', ':'))]
    for name, text, exps in FIXED:
        named.append((name, text))
        plancheck.EXPECT[name] = [json.dumps({'e': 'expect', 'name': name, 'var': v, 'kind': 'arith', 'dom0': [], 'allowed': [], 'sat': 1,
                                              'value': val, 'bvalue': 0}, separators=(',', ':')) for v, val in exps]
    ev.sample({'object_case': cases[0]})
    repo = [p for p in plancheck.repo_problems() if p[0].startswith(('SolverTest', 'Logistics', 'cr_', 'education'))]
    return plancheck.remember(plancheck.write_problems(rd, named) + repo), None


def run(tier, seed):
    return plancheck.run_plan(PROP, tier, seed,
        rule='class tables (chain, fork, a class with two supertypes), three instance creations, an object variable declared '
             'after two or three of them, one constraint (a field value, equality / disequality with an instance, a field through '
             'a chain of two variables, a relation on a field that is itself a variable bounded differently by the constructor body of every instance; enum types with 1-3 values including another enum or not, 2-5 variables that must be pairwise different, equality with a variable of the included enum; a variable of a supertype passed to a predicate parameter of a subtype whose rule constrains the parameter), all enumerated by ObjGen.tla with the reference semantics; the variable\'s domain at its '
             'declaration (from the object-variable definition hook) must be exactly the instances of its type and subtypes '
             'created so far, the program must be solvable iff some instance fits, and the chosen instance must be one that fits; '
             'plus programs pinning constructor / initialiser-list / field-initialiser / nested-type / field-chain values. '
             'distinct_nontrivial = (configuration, problem) pairs run to a verdict',
        assumptions=['instances are recognised through their top-level names'],
        make_problems=make, configs_quick=['dbg_exec'], configs_thorough=['dbg_exec', 'rel_exec_hadd_ci'],
        stat_key='known_solved')


def replay(path):
    return plancheck.replay_problem(PROP, path)
