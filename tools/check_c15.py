"""C15 - rational / infinitesimal / linear-expression arithmetic is exact."""
import json
import os
import vlib
from vlib import Evidence

PROP = 'C15'


def signature(ev, exec_lines, idx, r=None):
    parts = ['arith', ev.get('e', '?')]
    for k in ('op', 'form', 'rk', 'lk'):
        if k in ev:
            parts.append(str(ev[k]))
    if 'asg' in ev:
        parts.append('asg' if ev['asg'] else 'bin')
    return ':'.join(parts)


def nontrivial(lines):
    """distinct operator applications (register indices removed), excluding constructions and resets"""
    seen = set()
    for ln in lines:
        if '"e":"reset"' in ln or '"e":"qmk"' in ln or '"e":"lset"' in ln or '"e":"emk"' in ln:
            continue
        seen.add(ln)
    return len(seen)


def run(tier, seed):
    ev = Evidence(PROP, tier, seed, 'model_checking')
    ev.cov['rule'] = ('every line is one operator application on smt::rational / inf_rational / lin executed by the real '
                      'library; operands: full grid of numerators/denominators (non-reduced and negative-denominator '
                      'spellings, both infinities) plus seeded random chains; distinct_nontrivial = distinct operator '
                      'applications (operation, form, operand values, result), constructions excluded')
    ev.assumptions = ['operand magnitudes <= 181 so that no 64-bit overflow occurs and TLC integers do not wrap',
                      'operations the library asserts out (inf + -inf, 0 * inf, x / 0, infinite scalars on lin) are not issued']
    try:
        # 1. the reference semantics itself: algebraic laws of Rat/InfRat/Lin checked exhaustively on a small grid
        r = vlib.model_check('MC_Arith', timeout=600)
        ev.add_model(r, 'laws of the reference arithmetic (total order, canonical results, field laws) on a grid')
        if r['invariant_violated'] or not r['no_error']:
            raise vlib.CheckError('reference arithmetic violates its own laws:\n' + r['out'][-3000:])
        # 2. the implementation against the reference
        bd = vlib.build_repo('dbg', targets=['smt'])
        drv = vlib.build_driver('arith_driver', 'dbg')
        rd = vlib.run_dir(PROP)
        G = 3 if tier == 'quick' else 5
        nrand = 300 if tier == 'quick' else 3000
        viol = 0
        all_lines = []
        for name, cmd in (('grid', [drv, 'grid', str(G), os.path.join(rd, 'grid.ndjson')]),
                          ('random', [drv, 'random', str(seed), str(nrand), os.path.join(rd, 'random.ndjson')])):
            rc, out = vlib.run(cmd, timeout=600, check=False)
            lines = vlib.read_lines(cmd[-1])
            all_lines += lines
            viol += vlib.validate_batch(ev, PROP, 'ArithTrace', lines, signature, name, timeout=1500)
            if viol:
                break
        ev.cov['distinct_nontrivial'] = nontrivial(all_lines)
        ev.cov['exhaustive_grid'] = G
    finally:
        ev.write()
    return 1 if ev.violations else 0


def replay(path):
    ok, m, t, r = vlib.validate_trace('ArithTrace', os.path.abspath(path))
    print('matched %d of %d lines' % (m, t))
    if not ok:
        lines = vlib.read_lines(path)
        print('rejected line: ' + lines[min(m, len(lines) - 1)])
        vlib.violation(PROP, path)
        return 1
    return 0
