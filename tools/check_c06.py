"""C06 - active atoms are temporally well-formed within [origin, horizon]."""
import gen_problems
import plancheck

PROP = 'C06'


def make(rd, tier, seed, ev):
    fam = gen_problems.temporal_family()
    gen = plancheck.write_problems(rd, [(n, t) for n, t, ok in fam]) + plancheck.feature_problems(rd, ['inheritance', 'timeline'], seed, tier)[0]
    repo = plancheck.repo_problems()
    if tier == 'quick':
        repo = [p for p in repo if not p[0].startswith(('GOAC', 'Matera'))] + [p for p in repo if p[0] in ('GOAC_2Pic_2Wind', 'Matera_05')]
    ev.sample({'generated_problem': gen[1][0], 'text': open(gen[1][1][0]).read()})
    return plancheck.remember(gen + repo), None


def run(tier, seed):
    return plancheck.run_plan(PROP, tier, seed,
        rule='{fact, goal} x {plain Interval predicate, plain Impulse predicate, StateVariable, ReusableResource, Agent interval, '
             'Agent impulse} x {declared directly, introduced by a rule} x 10 requested interval time patterns / 6 impulse '
             'patterns (consistent, reversed, zero length, beyond horizon, before origin, negative or contradictory duration, at '
             'the bounds), plus the inheritance family (the predicate reaches Interval / Impulse directly, through an empty predicate, a non-empty one or two levels x fact / goal x direct / rule x plain / agent) and the feature-cross timeline family, plus every repository example; in every reported solution each active interval atom satisfies origin '
             '<= start <= end <= horizon and duration = end - start >= 0, each active impulse atom origin <= at <= horizon (exact '
             'arithmetic on the reported values); distinct_nontrivial = (configuration, problem) pairs whose solution has an '
             'active interval or impulse atom',
        assumptions=['solver runs exceeding the time budget are excluded and counted'],
        make_problems=make, configs_quick=['dbg_exec'], configs_thorough=['dbg_exec', 'rel_exec_hadd_ci'],
        stat_key='temporal')


def replay(path):
    return plancheck.replay_problem(PROP, path)
