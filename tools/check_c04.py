"""C04 - atoms on the same state variable never overlap in time."""
import os
import gen_problems
import plancheck
import vlib

PROP = 'C04'


EXEC = []      # generated problems that are also executed with delays (the adapted plans are validated too)


def make(rd, tier, seed, ev):
    shapes, r = gen_problems.plangen_shapes(2 if tier == 'quick' else 3, rd) if tier == 'quick' else gen_problems.plangen_shapes(2, rd)
    ev.add_model(r, 'PlanGen: enumeration of all small timeline problems with their feasibility verdicts')
    sv = [s for s in shapes if s['fam'] == 'sv']
    pick = gen_problems.sample_shapes(sv, 250 if tier == 'quick' else 2500, seed)
    gen = plancheck.write_problems(rd, [(gen_problems.shape_name(s), gen_problems.render_timeline(s)) for s in pick]) + plancheck.feature_problems(rd, ['timeline_sv', 'subclass', 'inactive'], seed, tier)[0]
    expected = {gen_problems.shape_name(s): s['feasible'] for s in pick}
    repo = [p for p in plancheck.repo_problems() if p[0].startswith(('SVTest', 'GOAC', 'Logistics', 'Telepresence'))]
    if tier == 'quick':
        repo = [p for p in repo if not p[0].startswith('GOAC') or p[0].endswith('1Wind')]
    ev.sample({'generated_problem': gen[0][0], 'text': open(gen[0][1][0]).read()})
    EXEC.extend([g for g in gen if g[0].startswith('ft_')][:60 if tier == 'quick' else 600])
    # more timelines for the executor only (other seeds of the same family, read in one piece): an adaptation that goes wrong
    # needs a delay that actually presses on the timeline, which few of the problems above produce
    import gen_features
    more = []
    for j in range(1, 4 if tier == 'quick' else 13):
        more += [(n + '_s' + str(j), parts, ok) for (n, parts, ok) in gen_features.timeline_family(seed * 1000 + j, 90)
                 if n.startswith('ft_sv') and len(parts) == 1]
    EXEC.extend(plancheck.write_feature_problems(rd, more))
    return plancheck.remember(gen + repo), None


def run(tier, seed):
    return plancheck.run_plan(PROP, tier, seed,
        rule='state-variable problems: every shape enumerated by PlanGen.tla (1-2 instances, 2 atoms, facts/goals, fixed or '
             'planner-chosen instance, fixed or free start, durations 0-2 incl. zero-length, horizons 2-3) sampled by seed, plus the feature-cross timeline family (2-3 atoms on one instance x 10 temporal relations, strict ones included, so that overlaps can be infinitesimal x pinned / free times x statement order x incremental reading), plus '
             'the repository examples that use state variables; every reported solution is validated by PlanTrace: no two active '
             'atoms assigned to one instance overlap in [start,end), every timeline segment lists at most one atom and exactly '
             'the covering ones; distinct_nontrivial = (configuration, problem) pairs whose solution has >= 2 active '
             'state-variable atoms',
        assumptions=['an atom is assigned to an instance when its tau is that instance or a variable whose reported domain is exactly it',
                     'solver runs exceeding the time budget are excluded and counted'],
        make_problems=make, configs_quick=['dbg_exec'], configs_thorough=['dbg_exec', 'rel_exec_hadd_ci', 'dbg_exec_ci', 'dbg_exec_hadd'],
        stat_key='sv_pairs',
        post=lambda ev, rd, tier_, seed_: plancheck.exec_runs(ev, PROP, rd, EXEC, seed_, tier_))


def replay(path):
    return plancheck.replay_problem(PROP, path)
