"""C18 - no abnormal termination: bad input is rejected, valid use never aborts."""
import glob
import json
import os
import random
import netcheck
import plancheck
import riddlecheck
import vlib
from vlib import Evidence

PROP = 'C18'


def parse_cases(tier, seed):
    """truncations of every repository example, oversized numerals, unbalanced nesting, seeded character noise"""
    rnd = random.Random(seed)
    files = sorted(glob.glob(os.path.join(vlib.REPO, 'examples', '*', '*.rddl')))
    cases = []
    ncuts = 12 if tier == 'quick' else 80
    for f in files:
        txt = open(f, errors='replace').read()
        base = os.path.basename(f)[:-5]
        cases.append({'name': 'full_' + base, 'text': txt, 'valid': 1})
        cuts = {rnd.randrange(1, max(2, len(txt))) for _ in range(ncuts)}
        if len(txt) < 900:       # small programs: truncated at every position (quick: every other one)
            cuts |= set(range(1, len(txt), 2 if tier == 'quick' else 1))
        cuts = sorted(cuts)
        for c in cuts:
            cases.append({'name': 'trunc_%s_%d' % (base, c), 'text': txt[:c], 'valid': 0})
        for k in range(3 if tier == 'quick' else 15):
            pos = rnd.randrange(0, max(1, len(txt)))
            ch = rnd.choice(['"', '/*', '*/', '(', ')', '{', '}', ';', '\\', '#', '99999999999999999999999', '1.2.3', '\x00', '@'])
            cases.append({'name': 'noise_%s_%d' % (base, k), 'text': txt[:pos] + ch + txt[pos:], 'valid': 0})
    extra = ['real x; x == 123456789012345678901234567890;', 'real x; x == 0.123456789012345678901234567890;', '/* never closed',
             '"never closed', 'real x; x == ((((((((((((((((((((1.0))))))))))))))))))));', '{' * 200, '(' * 200, 'class ' * 50,
             'predicate P( { }', 'goal g = new ;', 'x.y.z.;', 'enum E {"a", } ;', 'real a = ; ', '////', '/**/', '/***/', '/* * / */ real x;']
    for i, t in enumerate(extra):
        cases.append({'name': 'extra_%d' % i, 'text': t, 'valid': 0})
    return cases


def run(tier, seed):
    ev = Evidence(PROP, tier, seed, 'exploration')
    ev.cov['rule'] = ('(1) lexer: every string of length <= 4 (quick) / 5 (thorough) over {/ * " \\ newline a 1 . space =} plus the keyword / '
                      'operator dictionary (LexGen.tla): the lexer returns tokens or a reported error within its time budget; '
                      '(2) parser: every repository example whole, truncated at seeded positions (the small ones at every position), and with seeded noise '
                      '(quotes, comment markers, brackets, oversized numerals, stray bytes), plus hand-written malformed programs: the '
                      'parser returns a tree or a reported error, whole examples are accepted; (3) every repository example and the '
                      'generated timeline / causal / temporal families, and sessions of several read(script) calls in which a script that declares a predicate / class / enum / method fails in a later phase (unknown predicate, identifier, type, field, method, syntax error), the client catches the reported error and goes on with scripts that use the declarations, and programs that apply every operator to operands of the wrong kind (incl. the precedence traps x < 5 | y >= 1 and x != 0 | b), through read() + solve() in a Debug build (assertions on) and '
                      'in an AddressSanitizer + UndefinedBehaviorSanitizer build: no abort, failed assertion, uncaught exception, '
                      'sanitizer report or leak; (4) seeded network API histories, and every transition of the model SatCoreImpl (spec/SatCoreGen.tla), in the sanitizer build. distinct_nontrivial = '
                      'distinct inputs / programs / histories run')
    ev.assumptions = ['memory errors and leaks are observed through the sanitizers, not decided by the specification',
                      'the time budget per lexer input is 2 s, per parser input 3 s, per problem 20 s (quick) / 90 s (thorough)']
    distinct = 0
    try:
        rd = vlib.run_dir(PROP)
        # (1) lexer termination
        cases, r = riddlecheck.lexgen(rd, 4 if tier == 'quick' else 5)
        ev.add_model(r, 'LexGen: enumeration of lexer inputs')
        vlib.build_repo('dbg', targets=['riddle'])
        drv = vlib.build_driver('riddle_driver', 'dbg', libs=('riddle', 'smt', 'json'))
        lines, restarts = riddlecheck.run_cases(drv, 'lex', cases, os.path.join(rd, 'lexout.ndjson'))
        distinct += len(lines)
        if vlib.validate_batch(ev, PROP, 'LexTrace', lines, riddlecheck.signature, 'lex', timeout=2500, env={'VPROP': PROP}, reset_key='"e":"lex"'):
            return 1
        # (2) parser robustness
        pc = parse_cases(tier, seed)
        pfile = os.path.join(rd, 'parsecases.ndjson')
        with open(pfile, 'w') as fh:
            for c in pc:
                fh.write(json.dumps(c) + '\n')
        plines, restarts2 = riddlecheck.run_cases(drv, 'parse', pfile, os.path.join(rd, 'parseout.ndjson'))
        valid = {c['name']: c['valid'] for c in pc}
        plines2 = []
        for ln in plines:
            j = json.loads(ln)
            j['valid'] = valid.get(j['name'], 0)
            plines2.append(json.dumps(j, separators=(',', ':')))
        distinct += len(plines2)
        ev.cov['driver_restarts_after_hang_or_crash'] = restarts + restarts2
        ev.sample({'parser_case': pc[1]['name'], 'text_tail': pc[1]['text'][-80:]})
        if vlib.validate_batch(ev, PROP, 'LexTrace', plines2, riddlecheck.signature, 'parse', timeout=2500, env={'VPROP': 'ALL'}, reset_key='"e":"parse"'):
            return 1
        # (3) valid programs, Debug and sanitizer builds
        import gen_problems
        named = [(n, t) for n, t, ok in gen_problems.causal_family() + gen_problems.temporal_family()]
        shapes, r2 = gen_problems.plangen_shapes(2, rd)
        ev.add_model(r2, 'PlanGen: enumeration of small timeline problems')
        named += [(gen_problems.shape_name(s), gen_problems.render_timeline(s)) for s in gen_problems.sample_shapes(shapes, 60 if tier == 'quick' else 600, seed)]
        problems = plancheck.write_problems(rd, named) + plancheck.repo_problems()
        # sessions: scripts handed to read(script) one after the other, rejected ones caught, valid ones using what was declared
        import gen_features
        sessions = plancheck.write_feature_problems(rd, gen_features.session_family())
        problems += [(n, ['--script', '--recover'] + fs) for n, fs in sessions]
        problems += [(n + '_files', ['--recover'] + fs) for n, fs in sessions[::3]]
        problems += plancheck.write_feature_problems(rd, gen_features.illtyped_family())
        if tier == 'quick':
            problems = [p for p in problems if not p[0].startswith(('GOAC_3', 'GOAC_4', 'GOAC_5', 'Matera_1', 'Matera_2'))]
        for cfg in (['dbg_exec', 'asan']):
            vlib.build_repo(cfg)
            pdrv = vlib.build_driver('plan_driver', cfg, libs=plancheck.LIBS)
            res = plancheck.run_problems(pdrv, problems, os.path.join(rd, cfg), (20 if tier == 'quick' else 90) * (3 if cfg == 'asan' else 1),
                                         jobs=8 if cfg == 'asan' else 12)
            distinct += len(res)
            # solutions are not needed here: only verdict / abort / timeout lines are validated
            slim = [(n, [ln for ln in ls if '"e":"solution"' not in ln]) for n, ls in res]
            # memory not released while a rejected script unwinds is outside the property (it speaks of valid programs):
            # leaks are only examined for runs in which nothing was rejected
            clean = [(n, ls) for n, ls in res if not any('"e":"rejected"' in ln or '"e":"error"' in ln for ln in ls)]
            if plancheck.validate_results(ev, PROP, slim, cfg) or plancheck.check_leaks(ev, PROP, clean, cfg):
                return 1
        # (4b) every transition of the implementation-shaped model of the sat core, replayed under the sanitizers
        import satreplay
        if satreplay.run(ev, PROP, tier, ['SatCoreGen_A1.cfg', 'SatCoreGen_C.cfg', 'SatCoreGen_Asim.cfg'], build='asan', limit=42000 if tier == 'quick' else None):
            return 1
        # (4) network API histories under the sanitizers
        ndrv = vlib.build_driver('net_driver', 'asan')
        for i, profile in enumerate(['mix', 'lra', 'idl', 'rdl', 'reify', 'ov']):
            path = os.path.join(rd, 'net_%s.ndjson' % profile)
            rc, out = vlib.run([ndrv, 'gen', profile, str(seed * 100 + i), str(40 if tier == 'quick' else 400), path, '40'], timeout=1200, check=False)
            nl = vlib.read_lines(path) if os.path.exists(path) else []
            if rc != 0 and not any('"e":"abort"' in ln for ln in nl):
                nl.append(json.dumps({'e': 'abort', 'sig': rc, 'what': out[-300:]}))
            distinct += len(vlib.split_executions(nl))
            if vlib.validate_batch(ev, PROP, 'NetworkTrace', nl, netcheck.signature, 'net-' + profile, timeout=1700, env={'VPROP': PROP}):
                return 1
    finally:
        ev.cov['distinct_nontrivial'] = max(distinct, ev.cov.get('distinct_nontrivial', 0))
        ev.write()
    return 1 if ev.violations else 0


def replay(path):
    return plancheck.replay_problem(PROP, path)
