"""Replays the transitions of the implementation-shaped model LraImpl (printed by spec/LraGen.tla) on the real lra_theory
through net_driver. After every call the library's bounds, the truth values of the assertion literals, the decision level and
the lemmas it recorded are compared with the model's. Executions that deviate, and executions that end in a conflict (the
model does not follow the sat core's conflict analysis), are decided by the trace specification NetworkTrace."""
import json
import os
import re
import subprocess

import netcheck
import vlib

VAL = {'F': 0, 'T': 1, 'U': 2}


def js(o):
    return json.dumps(o, separators=(',', ':'))


def generate(cfg, rd, timeout, walks=1000):
    out = os.path.join(rd, 'gen-%s.txt' % cfg)
    md = os.path.join(rd, 'md-' + cfg)
    cmd = ['java', '-XX:+UseParallelGC', '-Xmx6g', '-Xss64m', '-cp', vlib.TLA_CP, 'tlc2.TLC', '-workers', '1', '-noGenerateSpecTE',
           '-metadir', md, '-config', cfg, 'LraGen.tla']
    sim = 'sim' in cfg      # random walks over the model instead of the exhaustive search
    if sim:
        cmd[cmd.index('-workers') + 1] = '4'
        cmd[-1:-1] = ['-simulate', 'num=%d' % walks, '-depth', '14', '-seed', '20260926']
    with open(out, 'w') as fh:
        try:
            rc = subprocess.run(cmd, cwd=vlib.SPEC, stdout=fh, stderr=subprocess.STDOUT, timeout=timeout).returncode
        except subprocess.TimeoutExpired:
            raise vlib.CheckError('LraGen/%s: timeout' % cfg)
    tail = subprocess.run(['tail', '-n', '12', out], capture_output=True, text=True).stdout
    m = re.search(r'(\d+) states generated, (\d+) distinct states found, 0 states left', tail)
    if sim:
        m = re.search(r'The number of states generated: (\d+)()', tail)
    if rc != 0 or not m:
        raise vlib.CheckError('LraGen/%s failed (rc=%d):\n%s' % (cfg, rc, tail))
    return out, {'module': 'LraGen', 'cfg': cfg, 'states_generated': int(m.group(1)), 'distinct_states': int(m.group(2) or 0)}


def parse(path):
    setup, tests = None, []
    with open(path) as fh:
        for ln in fh:
            for tag in ('LRATEST', 'LRASETUP'):
                pre = '<<"%s", ' % tag
                if ln.startswith(pre):
                    j = json.loads(json.loads(ln[len(pre):ln.rindex('>>')]))
                    if tag == 'LRASETUP':
                        setup = j
                    else:
                        tests.append(j)
    return setup, tests


def lin_of(setup, nx, x):
    if x < nx:
        return {'v': [[x, 1, 1]], 'k': [0, 1]}
    row = setup['rows'][x - nx]
    return {'v': [[z, c, 1] for z, c in enumerate(row) if c != 0], 'k': [0, 1]}


def lit(p):
    return 2 * abs(p) + (1 if p > 0 else 0)


def unlit(idx):
    v = idx // 2
    return 0 if v == 0 else (v if idx % 2 else -v)


def prefix(setup, nx, batches):
    """creation calls: the variables, the assertion literals (literal i = atom i), one decision variable per batch of
    several literals with the clauses that make it imply them in order, a propagation"""
    lines = [js({'e': 'reset', 'profile': 'lra', 'dlsize': 16})] + [js({'e': 'lra_new_var'})] * nx
    for (x, o, v) in setup['atoms']:
        (cn, cd), (kn, kd) = v
        rel = {('leq', 0): 'leq', ('leq', -1): 'lt', ('geq', 0): 'geq', ('geq', 1): 'gt'}[(o, kn)]
        lines.append(js({'e': 'lra_rel', 'rel': rel, 'l': lin_of(setup, nx, x), 'r': {'v': [], 'k': [cn, cd]}}))
    na = len(setup['atoms'])
    for k, ps in enumerate(batches):
        lines.append(js({'e': 'new_var'}))
    for k, ps in enumerate(batches):
        for q in ps:
            lines.append(js({'e': 'new_clause', 'lits': [lit(-(na + 1 + k)), lit(q)]}))
    lines.append(js({'e': 'propagate'}))
    return lines


def translate(setup, t):
    """-> (lines, checkpoints) or None when the history cannot be replayed (a bare push at the end, several literals in one
    batch at root level)"""
    nx = t['nx']
    ops = t['ops']
    if ops[-1]['k'] == 'push':
        return None
    na = len(setup['atoms'])
    batches = []
    for i, o in enumerate(ops):
        if o['k'] in ('assert', 'conflict') and len(o['p']) > 1:
            if i == 0 or ops[i - 1]['k'] != 'push':
                return None
            batches.append(o['p'])
    lines = prefix(setup, nx, batches)
    cps = []
    i = 0
    nb = 0
    while i < len(ops):
        o = ops[i]
        if o['k'] == 'push':
            o = ops[i + 1]
            if len(o['p']) > 1:
                lines.append(js({'e': 'assume', 'p': lit(na + 1 + nb)}))
                nb += 1
            else:
                lines.append(js({'e': 'assume', 'p': lit(o['p'][0])}))
            cps.append((len(lines) - 1, o))
            i += 2
        elif o['k'] == 'pop':
            lines.append(js({'e': 'pop'}))
            cps.append((len(lines) - 1, o))
            i += 1
        else:
            lines.append(js({'e': 'new_clause', 'lits': [lit(o['p'][0])]}))
            lines.append(js({'e': 'propagate'}))
            cps.append((len(lines) - 1, o))
            i += 1
    return lines, cps


def conforms(setup, t, cps, ex, first):
    """ex: parsed output lines of the execution; first: index in ex of the first line of this test (after reset)"""
    nx, na = t['nx'], len(setup['atoms'])
    nv = nx + len(setup['rows'])
    for a in range(na):
        ln = ex[nx + a]
        if ln.get('e') != 'lra_rel' or ln.get('ret') != lit(a + 1):
            raise vlib.CheckError('unexpected literal numbering in the replay: %s' % json.dumps(ln)[:300])
    if len(ex[nx + na - 1]['obs']['lra']) != nv:
        raise vlib.CheckError('unexpected number of arithmetic variables in the replay: %d for %d' % (len(ex[nx + na - 1]['obs']['lra']), nv))
    for (idx, o) in cps:
        if o['k'] == 'conflict':
            return 'conflict'          # the rest is the sat core's analysis: decided by the arbiter
        if idx >= len(ex):
            return 'call %d was not answered' % idx
        out = ex[idx]
        if out.get('e') in ('abort', 'garbage'):
            return 'the library crashed'
        if 'ret' in out and out['ret'] != 1:
            return 'call %d (%s): refused, the model accepts' % (idx, out.get('e'))
        obs = o['obs']
        if out['dl'] != obs['dl']:
            return 'call %d: decision level %d, the model has %d' % (idx, out['dl'], obs['dl'])
        want = [VAL[x] for x in obs['aval']]
        if out['vals'][1:na + 1] != want:
            return 'call %d: literal values %s, the model has %s' % (idx, out['vals'][1:na + 1], want)
        lra = out['obs']['lra']
        for z in range(nv):
            if lra[z][0] != obs['lb'][z] or lra[z][1] != obs['ub'][z]:
                return 'call %d: bounds of x%d are [%s, %s], the model has [%s, %s]' % (idx, z, lra[z][0], lra[z][1], obs['lb'][z], obs['ub'][z])
        if o['k'] == 'assert':
            got = set()
            # the lemmas of this call: for a root-level assert they may be recorded by the new_clause call or the propagate call
            for h_out in (ex[idx - 1], out) if out.get('e') == 'propagate' else (out,):
                for h in h_out.get('hooks', []):
                    if h.get('k') == 'learnt' and h.get('o') == 0:
                        got.add(frozenset(unlit(x) for x in h['lits']))
            want_l = set(frozenset(c) for c in o['lemmas'])
            if got != want_l:
                return 'call %d: lemmas %s, the model records %s' % (idx, sorted(map(sorted, got)), sorted(map(sorted, want_l)))
    return None


def run(ev, prop, tier, cfgs, max_arbiter=None):
    max_arbiter = max_arbiter or (1200 if tier == 'quick' else 6000)
    vlib.build_repo('dbg', targets=['smt'])
    drv = vlib.build_driver('net_driver', 'dbg')
    rd = vlib.run_dir('%s-lraimpl' % prop)
    total = exact = conflicts = 0
    to_arbiter, first_dev, n_dev = [], None, 0
    batch_conflicts, other_conflicts = [], []
    for cfg in cfgs:
        path, stats = generate(cfg, rd, 900 if tier == 'quick' else 3400)
        stats['what'] = 'test generation: one test per transition of LraImpl between abstract states (%s)' % cfg
        stats['wall_s'] = 0
        ev.cov['models'].append(stats)
        setup, tests = parse(path)
        os.remove(path)
        plans = [(t, translate(setup, t)) for t in tests]
        plans = [(t, p) for t, p in plans if p]
        for c0 in range(0, len(plans), 5000):
            chunk = plans[c0:c0 + 5000]
            all_lines = [ln for _, (lines, _) in chunk for ln in lines]
            inp, outp = os.path.join(rd, 'tests.ndjson'), os.path.join(rd, 'out.ndjson')
            if os.path.exists(outp):
                os.remove(outp)
            vlib.write_lines(inp, all_lines)
            rc, o = vlib.run([drv, 'replay', inp, outp], timeout=1800, check=False)
            outs = vlib.split_executions(vlib.read_lines(outp))
            crashed = rc < 0 or rc >= 128 or rc == 3
            if len(outs) != len(chunk) and not crashed:
                raise vlib.CheckError('replay of the model tests: %d executions for %d tests (rc=%d) %s' % (len(outs), len(chunk), rc, o[-500:]))
            for k, (t, (lines, cps)) in enumerate(chunk):
                if k >= len(outs):
                    break
                total += 1
                ex = [json.loads(x) for x in outs[k][1:]]
                # checkpoints index the input lines (the reset line included): the outputs have no reset line
                d = conforms(setup, t, [(i - 1, o_) for i, o_ in cps], ex, 0)
                if crashed and k == len(outs) - 1 and '"e":"abort"' not in outs[k][-1]:
                    outs[k].append(js({'e': 'abort', 'what': 'driver killed, rc=%d' % rc}))
                    d = 'the library crashed'
                if d is None:
                    exact += 1
                elif d == 'conflict':
                    conflicts += 1
                    # conflicts of a batch of several literals first (only they reach the "assigned but not yet propagated"
                    # branches of the theory), the others as far as the budget goes
                    if len(t['ops'][-1]['p']) > 1:
                        batch_conflicts.append(outs[k])
                    else:
                        other_conflicts.append(outs[k])
                else:
                    n_dev += 1
                    first_dev = first_dev or d
                    to_arbiter.insert(0, outs[k])
            if crashed:
                break
    ev.cov['lraimpl_transitions_replayed'] = total
    ev.cov['lraimpl_exact_conformance'] = exact
    ev.cov['lraimpl_ending_in_conflict'] = conflicts
    ev.cov['lraimpl_deviating'] = n_dev
    if first_dev:
        ev.cov['lraimpl_first_deviation'] = first_dev
        vlib.log('[lraimpl] %d of %d executions deviate from LraImpl (first: %s): NetworkTrace decides' % (n_dev, total, first_dev))
    step = max(1, len(other_conflicts) // max(1, max_arbiter // 2))
    to_arbiter = (to_arbiter + batch_conflicts + other_conflicts[::step])[:max_arbiter]
    ev.cov['lraimpl_decided_by_NetworkTrace'] = len(to_arbiter)
    if to_arbiter:
        flat = [ln for e in to_arbiter for ln in e]
        return vlib.validate_batch(ev, prop, 'NetworkTrace', flat, netcheck.signature, 'lraimpl', timeout=1700, env={'VPROP': prop},
                                   describe_fn=netcheck.describe)
    return 0
