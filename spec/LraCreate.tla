------------------------------ MODULE LraCreate ------------------------------
(* Implementation-shaped model of the creation-time logic of smt::lra_theory (C11): new_var(lin) - the lookup of the   *)
(* expression as given, the substitution of the basic (slack) variables by their rows, the second lookup, the constant  *)
(* case, the fresh slack variable with the bounds and the value of its expression and its row - and new_lt / new_leq /   *)
(* new_geq / new_gt as written (difference of the operands, substitution, the bound c_right with its infinitesimal, the  *)
(* constant answers decided by the bounds of the expression and then of the slack variable, the assertion cache, the      *)
(* fresh control variable), new_eq as the conjunction of new_geq and new_leq built by the sat core (the model of the      *)
(* reified constructors, ReifyImpl). The network is at root level and nothing has been asserted or pivoted: bounds come   *)
(* from relations on the plain variables that are requested, asserted as unit clauses and propagated before the other    *)
(* requests, so every row is a definition over plain variables.                                                          *)
(* TLC checks, for every history of the configuration, on every point of a grid inside the current box of the plain       *)
(* variables: a constant answer is right, a literal's assertion (slack <= / >= bound, infinitesimals included) holds       *)
(* exactly where the requested relation does, every slack variable has the bounds and the value of its expression.        *)
(* spec/LraCreateGen.tla prints one test per transition; tools/lracreplay.py replays them on the library.                 *)
EXTENDS ReifyImpl, InfRat, Lin

CONSTANTS NX,        \* plain variables 0..NX-1
          Boxes,     \* set of [lb |-> [0..NX-1 -> Rat or NInf], ub |-> ...]: the bounds set before the requests
          Coefs,     \* the coefficients (integers) the requested expressions may have
          Consts,    \* the right-hand constants (integers)
          Ops,       \* subset of {"lt", "leq", "eq", "geq", "gt"}
          DefPool,   \* expressions (functions 0..NX-1 -> integer) new_var(lin) may be asked for before the requests
          CoefPool,  \* when not empty: the coefficient vectors (over the plain variables; derived ones get 0) of the requests
          MaxRel,    \* bound on the number of requests
          Grid       \* the values (integers) of the grid the meaning is checked on

VARIABLES nx,      \* number of arithmetic variables
          lbs, ubs, vls,   \* sequences (variable + 1) of InfRat
          rows,    \* slack variable -> its row: a Lin over plain variables (no constant term)
          lexprs,  \* the expression cache: Lin -> variable
          asrts,   \* the assertion cache: <<slack, "leq" | "geq", bound>> -> literal
          adefs,   \* (what v_asrts holds) literal -> <<slack, op, bound>>
          reqs,    \* ghost: the requests made, with their answers
          phase, nrel
lvars == <<vars, nx, lbs, ubs, vls, rows, lexprs, asrts, adefs, reqs, phase, nrel>>

L == [nx |-> nx, lb |-> lbs, ub |-> ubs, vl |-> vls, rows |-> rows, ex |-> lexprs, as |-> asrts, ad |-> adefs]

IsBasic(T, v) == v \in DOMAIN T.rows
\* lra_theory::lb(lin) / ub(lin) / value(lin)
RECURSIVE SumF(_, _)
SumF(t, xs) == IF xs = {} THEN IRZero ELSE LET x == CHOOSE y \in xs : TRUE IN IRAdd(t[x], SumF(t, xs \ {x}))
LbOf(T, e) == IRAdd(IROf(e.k), SumF([x \in LVars(e) |-> IRMul(IF IsPos(e.v[x]) THEN T.lb[x + 1] ELSE T.ub[x + 1], e.v[x])], LVars(e)))
UbOf(T, e) == IRAdd(IROf(e.k), SumF([x \in LVars(e) |-> IRMul(IF IsPos(e.v[x]) THEN T.ub[x + 1] ELSE T.lb[x + 1], e.v[x])], LVars(e)))
ValOf(T, e) == IRAdd(IROf(e.k), SumF([x \in LVars(e) |-> IRMul(T.vl[x + 1], e.v[x])], LVars(e)))
\* the basic variables of an expression replaced by their rows
RECURSIVE Subst(_, _, _)
Subst(T, e, xs) ==
  IF xs = {} THEN e
  ELSE LET x == CHOOSE y \in xs : TRUE
       IN IF IsBasic(T, x) /\ x \in LVars(e)
          THEN Subst(T, LAdd([e EXCEPT !.v = [y \in LVars(e) \ {x} |-> e.v[y]]], LScale(T.rows[x], e.v[x])), xs \ {x})
          ELSE Subst(T, e, xs \ {x})

\* lra_theory::new_var(): bounds -inf / +inf, value 0, cached as "x<id>"
FreshVar(T) ==
  [T EXCEPT !.nx = @ + 1, !.lb = Append(@, <<NInf, Zero>>), !.ub = Append(@, <<PInf, Zero>>), !.vl = Append(@, IRZero),
            !.ex = (LVar(T.nx, One) :> T.nx) @@ @]
\* lra_theory::new_var(lin)
NewVarLin(T, l) ==
  IF l \in DOMAIN T.ex THEN [T |-> T, x |-> T.ex[l]]
  ELSE LET e == Subst(T, l, LVars(l))
       IN IF e \in DOMAIN T.ex THEN [T |-> T, x |-> T.ex[e]]
          ELSE LET T1 == FreshVar(T)
                   x == T.nx
               IN IF LVars(e) = {}
                  THEN [T |-> [T1 EXCEPT !.ex = (e :> x) @@ @, !.lb[x + 1] = IROf(e.k), !.ub[x + 1] = IROf(e.k), !.vl[x + 1] = IROf(e.k)], x |-> x]
                  ELSE [T |-> [T1 EXCEPT !.ex = (e :> x) @@ @, !.lb[x + 1] = LbOf(T, e), !.ub[x + 1] = UbOf(T, e), !.vl[x + 1] = ValOf(T, e),
                                          !.rows = (x :> e) @@ @], x |-> x]

\* new_lt / new_leq / new_geq / new_gt; S is the state of the sat core (a fresh control variable)
Ineq(T, S, op, left, right) ==
  LET d == LSub(left, right)
      e0 == Subst(T, d, LVars(d))
      upper == op \in {"lt", "leq"}
      cr == IF op = "lt" THEN <<Neg(e0.k), Neg(One)>> ELSE IF op = "leq" THEN IROf(Neg(e0.k))
            ELSE IF op = "geq" THEN IROf(Neg(e0.k)) ELSE <<Neg(e0.k), One>>
      e == [e0 EXCEPT !.k = Zero]
      \* the constant answers: (TRUE test, FALSE test) on a lower / upper bound pair
      Tru(lo, hi) == IF upper THEN IRLe(hi, cr) ELSE IRGe(lo, cr)
      Fls(lo, hi) == IF upper THEN IRGt(lo, cr) ELSE IRLt(hi, cr)
  IN IF Tru(LbOf(T, e), UbOf(T, e)) THEN [T |-> T, S |-> S, ret |-> TrueLit]
     ELSE IF Fls(LbOf(T, e), UbOf(T, e)) THEN [T |-> T, S |-> S, ret |-> FalseLit]
     ELSE LET nv0 == NewVarLin(T, e)
              T1 == nv0.T
              s == nv0.x
              key == <<s, IF upper THEN "leq" ELSE "geq", cr>>
          IN IF Tru(T1.lb[s + 1], T1.ub[s + 1]) THEN [T |-> T1, S |-> S, ret |-> TrueLit]
             ELSE IF Fls(T1.lb[s + 1], T1.ub[s + 1]) THEN [T |-> T1, S |-> S, ret |-> FalseLit]
             ELSE IF key \in DOMAIN T1.as THEN [T |-> T1, S |-> S, ret |-> T1.as[key]]
             ELSE LET c == MkLit(S.nv, TRUE)
                  IN [T |-> [T1 EXCEPT !.as = (key :> c) @@ @, !.ad = (c :> key) @@ @], S |-> NewVarS(S), ret |-> c]
Rel(T, S, op, left, right) ==
  IF op # "eq" THEN Ineq(T, S, op, left, right)
  ELSE LET g == Ineq(T, S, "geq", left, right)
           l == Ineq(g.T, g.S, "leq", left, right)
           c == ConjS(l.S, <<g.ret, l.ret>>)
       IN [T |-> l.T, S |-> c.S, ret |-> c.ret]

\* ---- the calls --------------------------------------------------------------------------------------------------------------
CommitL(T) == nx' = T.nx /\ lbs' = T.lb /\ ubs' = T.ub /\ vls' = T.vl /\ rows' = T.rows /\ lexprs' = T.ex /\ asrts' = T.as /\ adefs' = T.ad

RECURSIVE Fresh(_, _)
Fresh(T, k) == IF k = 0 THEN T ELSE Fresh(FreshVar(T), k - 1)
Empty == [nx |-> 0, lb |-> <<>>, ub |-> <<>>, vl |-> <<>>, rows |-> << >>, ex |-> << >>, as |-> << >>, ad |-> << >>]
LInit ==
  /\ Init
  /\ LET T == Fresh(Empty, NX) IN nx = T.nx /\ lbs = T.lb /\ ubs = T.ub /\ vls = T.vl /\ rows = T.rows /\ lexprs = T.ex
                                                /\ asrts = T.as /\ adefs = T.ad
  /\ reqs = {} /\ phase = "box" /\ nrel = 0

\* the box: for every finite bound of a plain variable the relation is requested (x >= l / x <= u), its literal is given as a
\* unit clause and propagated: the theory asserts the bound (assert_lower / assert_upper: the value follows when it falls
\* outside). acc = [T, S, lits]
BoundStep(acc, x, upper, q) ==
  LET r == Ineq(acc.T, acc.S, IF upper THEN "leq" ELSE "geq", LVar(x, One), LConst(q))
      S1 == NewClauseS(r.S, <<r.ret>>).S
      T1 == IF upper THEN [r.T EXCEPT !.ub[x + 1] = IROf(q), !.vl[x + 1] = IF IRGt(@, IROf(q)) THEN IROf(q) ELSE @]
            ELSE [r.T EXCEPT !.lb[x + 1] = IROf(q), !.vl[x + 1] = IF IRLt(@, IROf(q)) THEN IROf(q) ELSE @]
  IN [T |-> T1, S |-> S1, lits |-> Append(acc.lits, r.ret)]
RECURSIVE BoxFrom(_, _, _)
BoxFrom(acc, b, x) ==
  IF x = NX THEN acc
  ELSE LET a1 == IF IsInf(b.lb[x]) THEN acc ELSE BoundStep(acc, x, FALSE, b.lb[x])
           a2 == IF IsInf(b.ub[x]) THEN a1 ELSE BoundStep(a1, x, TRUE, b.ub[x])
       IN BoxFrom(a2, b, x + 1)
SetBox(b) ==
  /\ phase = "box"
  /\ LET r == BoxFrom([T |-> L, S |-> St, lits |-> <<>>], b, 0)
     IN CommitL(r.T) /\ Commit(r.S) /\ lastOp' = <<"box", b, r.lits>>
  /\ phase' = "defs"
  /\ UNCHANGED <<defs, dead, calls, units, reqs, nrel>>

LinOfCoefs(f, k) == LMk([x \in DOMAIN f |-> RatOf(f[x])], RatOf(k))
Def(f) ==
  /\ phase = "defs"
  /\ LET r == NewVarLin(L, LinOfCoefs(f, 0))
     IN CommitL(r.T) /\ lastOp' = <<"lra_def", f, r.x>>
  /\ phase' = "rels"
  /\ UNCHANGED <<nv, val, cls, exprs, defs, dead, calls, units, reqs, nrel>>
SkipDefs == phase = "defs" /\ phase' = "rels" /\ lastOp' = <<"skip">> /\ UNCHANGED <<nv, val, cls, exprs, defs, dead, calls, units, nx, lbs, ubs, vls, rows, lexprs, asrts, adefs, reqs, nrel>>

\* a request: coefficients over ALL the arithmetic variables that exist (derived ones included), a constant on the right
Request(op, f, k) ==
  /\ phase = "rels" /\ nrel < MaxRel
  /\ LET r == Rel(L, St, op, LinOfCoefs(f, 0), LConst(RatOf(k)))
     IN /\ CommitL(r.T) /\ Commit(r.S)
        /\ reqs' = reqs \cup {[op |-> op, f |-> f, k |-> k, ret |-> r.ret]}
        /\ lastOp' = <<"lra_rel", op, f, k, r.ret>>
  /\ nrel' = nrel + 1
  /\ UNCHANGED <<defs, dead, calls, units, phase>>

LNext ==
  \/ \E b \in Boxes : SetBox(b)
  \/ \E f \in DefPool : Def(f)
  \/ SkipDefs
  \/ \E op \in Ops : \E f \in (IF CoefPool = {} THEN [0..(nx - 1) -> Coefs]
                                ELSE {[x \in 0..(nx - 1) |-> IF x \in DOMAIN g THEN g[x] ELSE 0] : g \in CoefPool}) :
        \E k \in Consts : (\E x \in DOMAIN f : f[x] # 0) /\ Request(op, f, k)
LSpec == LInit /\ [][LNext]_lvars

\* ---- properties (C11) ----------------------------------------------------------------------------------------------------------
\* the points of the grid inside the box of the plain variables
Points == {p \in [0..(NX - 1) -> Grid] : \A x \in 0..(NX - 1) : IRLe(lbs[x + 1], IROf(RatOf(p[x]))) /\ IRLe(IROf(RatOf(p[x])), ubs[x + 1])}
\* the value of every arithmetic variable at a point: plain ones as given, slack ones by their rows, constants by their bounds
ValAt(p, x) == IF x < NX THEN IROf(RatOf(p[x])) ELSE IF x \in DOMAIN rows THEN LEval(rows[x], [y \in 0..(NX - 1) |-> IROf(RatOf(p[y]))]) ELSE lbs[x + 1]
ExprAt(p, f) == LET e == LinOfCoefs(f, 0) IN LEval(e, [y \in DOMAIN f |-> ValAt(p, y)])
Holds(op, a, b) == CASE op = "lt" -> IRLt(a, b) [] op = "leq" -> IRLe(a, b) [] op = "eq" -> IREqv(a, b) [] op = "geq" -> IRGe(a, b) [] op = "gt" -> IRGt(a, b)
\* what a literal means at a point: the constants; an assertion literal: its slack variable against its bound; a conjunction
AsrtAt(p, key) == IF key[2] = "leq" THEN IRLe(ValAt(p, key[1]), key[3]) ELSE IRGe(ValAt(p, key[1]), key[3])
RECURSIVE LitAt(_, _)
LitAt(p, x) ==
  IF x = TrueLit THEN TRUE ELSE IF x = FalseLit THEN FALSE
  ELSE IF x \in DOMAIN adefs THEN AsrtAt(p, adefs[x])
  ELSE IF NotLit(x) \in DOMAIN adefs THEN ~AsrtAt(p, adefs[NotLit(x)])
  ELSE LET k == CHOOSE kk \in DOMAIN exprs : exprs[kk] = x IN \A i \in DOMAIN k[2] : LitAt(p, k[2][i])     \* a conjunction of the sat core
RelationMeaning == \A r \in reqs : \A p \in Points : LitAt(p, r.ret) = Holds(r.op, ExprAt(p, r.f), IROf(RatOf(r.k)))
\* every slack variable carries the bounds and the value of its expression (as they were when it was created: the box is fixed)
SlackConsistent ==
  \A x \in DOMAIN rows : IREqv(lbs[x + 1], LbOf(L, rows[x])) /\ IREqv(ubs[x + 1], UbOf(L, rows[x])) /\ IREqv(vls[x + 1], ValOf(L, rows[x]))
RowsOverPlain == \A x \in DOMAIN rows : LVars(rows[x]) \subseteq 0..(NX - 1) /\ IsZero(rows[x].k)
=============================================================================
