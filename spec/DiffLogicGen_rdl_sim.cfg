SPECIFICATION GSpec
CONSTANTS
  N = 3
  Atoms <- Atoms6
  MaxLevel = 3
  Scale = 100
  PropGuardBug = FALSE
  EmitFrom = 16
  SavePredBug = FALSE
VIEW GView
ACTION_CONSTRAINT Emit
CHECK_DEADLOCK FALSE
