SPECIFICATION GSpec
CONSTANTS
  NU = 4
  MaxCalls = 2
  MaxUnits = 1
  MaxLen = 0
  ArgPool <- PoolOne
  Kinds = {"amo", "exo"}
  NestRet = FALSE
  WithConsts = FALSE
  UnitsAfter = FALSE
CHECK_DEADLOCK FALSE
VIEW GView
ACTION_CONSTRAINT Emit
