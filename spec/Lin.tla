-------------------------------- MODULE Lin --------------------------------
(* Linear expressions  sum_x c_x * x + k  over exact rationals: a record                    *)
(*   [v |-> function from a finite set of variable ids to NON-ZERO rationals, k |-> Rat].    *)
(* Reference semantics of smt::lin (C15): +, -, scalar * and /, unary minus act coefficient- *)
(* wise on every variable AND on the constant term; zero coefficients are dropped.           *)
EXTENDS InfRat, FiniteSets, TLC

LVars(e) == DOMAIN e.v
LCoef(e, x) == IF x \in DOMAIN e.v THEN e.v[x] ELSE Zero
LConst(q) == [v |-> << >>, k |-> q]           \* << >> is the function with empty domain
LVar(x, c) == [v |-> (x :> c), k |-> Zero]

\* a linear expression from a coefficient function that may contain zeros
LMk(f, k) == [v |-> [x \in {y \in DOMAIN f : ~IsZero(f[y])} |-> f[x]], k |-> k]

IsCanonicalLin(e) ==
  /\ \A x \in DOMAIN e.v : IsCanonical(e.v[x]) /\ ~IsZero(e.v[x]) /\ ~IsInf(e.v[x])
  /\ IsCanonical(e.k)

LAdd(a, b) == LMk([x \in LVars(a) \cup LVars(b) |-> Add(LCoef(a, x), LCoef(b, x))], Add(a.k, b.k))
LSub(a, b) == LMk([x \in LVars(a) \cup LVars(b) |-> Sub(LCoef(a, x), LCoef(b, x))], Sub(a.k, b.k))
LNeg(a) == [v |-> [x \in LVars(a) |-> Neg(a.v[x])], k |-> Neg(a.k)]
LScale(a, q) == LMk([x \in LVars(a) |-> Mul(a.v[x], q)], Mul(a.k, q))     \* q finite
LDiv(a, q) == LMk([x \in LVars(a) |-> Div(a.v[x], q)], Div(a.k, q))       \* q finite, non-zero
LAddK(a, q) == [a EXCEPT !.k = Add(a.k, q)]
LSubK(a, q) == [a EXCEPT !.k = Sub(a.k, q)]

\* evaluation under an assignment val : variable -> InfRat (finite values)
RECURSIVE LEvalOver(_, _, _)
LEvalOver(e, val, xs) ==
  IF xs = {} THEN IROf(e.k)
  ELSE LET x == CHOOSE y \in xs : TRUE
       IN IRAdd(IRMul(val[x], e.v[x]), LEvalOver(e, val, xs \ {x}))
LEval(e, val) == LEvalOver(e, val, LVars(e))

\* JSON form used in traces: [v |-> <<<<x, n, d>>, ...>>, k |-> <<n, d>>]
LinOfJson(j) ==
  LET idx == DOMAIN j.v
      xs == {j.v[i][1] : i \in idx}
  IN [v |-> [x \in xs |-> LET i == CHOOSE i \in idx : j.v[i][1] = x IN <<j.v[i][2], j.v[i][3]>>],
      k |-> j.k]
=============================================================================
