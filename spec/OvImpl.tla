------------------------------- MODULE OvImpl -------------------------------
(* Implementation-shaped model of smt::ov_theory (C14) on top of ReifyImpl (the sat core's constructors and clauses):  *)
(* new_var(items) - one fresh literal per value (TRUE_lit for a single value), the exactly-one constraint built by      *)
(* new_exct_one and asserted as a unit clause; new_var(lits, vals) - a variable controlled by given literals (what a    *)
(* field access through an object variable creates); new_eq(l, r) as written - the trivial case, the ordered cache key,  *)
(* the intersection of the two domains, FALSE_lit for disjoint domains, the fresh literal with its pruning / pairwise   *)
(* equality clauses; allows / value as read-outs of the literals. The caller prunes values with unit clauses.            *)
(* TLC checks over every history of the configuration: every variable takes exactly one value in every model, the        *)
(* equality literal is true exactly in the models in which both variables take the same value, value() is the set of     *)
(* values whose literal is not false, a request never constrains what existed.                                           *)
(* spec/OvGen.tla prints one test per transition; tools/ovreplay.py replays them on the library.                         *)
EXTENDS ReifyImpl

CONSTANTS DomPool,   \* the domains (sequences of distinct value ids) new_var(items) may be given
          MaxOv,     \* bound on the number of object variables
          MaxEq,     \* bound on the number of new_eq calls
          MaxPrune,  \* bound on the number of unit clauses on value literals
          Rename     \* [value id -> value id], injective: a derived variable takes Rename[v] when its base takes v

VARIABLES ovs,     \* sequence of [vals |-> sequence of value ids, lits |-> sequence of literals] (variable i is ovs[i + 1])
          ovx,     \* the theory's own expression cache: <<l, r>> -> literal
          eqs,     \* ghost: every equality request with its answer
          neq, nprune
ovars == <<vars, ovs, ovx, eqs, neq, nprune>>

LitOf(ov, v) == IF \E i \in DOMAIN ov.vals : ov.vals[i] = v THEN ov.lits[CHOOSE i \in DOMAIN ov.vals : ov.vals[i] = v] ELSE FalseLit   \* allows()
ValsOf(ov) == SeqRange(ov.vals)

OInit == Init /\ ovs = <<>> /\ ovx = << >> /\ eqs = {} /\ neq = 0 /\ nprune = 0

\* ov_theory::new_var(items, enforce_exct_one = true)
OvNew(dom) ==
  /\ ~dead /\ Len(ovs) < MaxOv
  /\ IF Len(dom) = 1
     THEN /\ ovs' = Append(ovs, [vals |-> dom, lits |-> <<TrueLit>>])
          /\ UNCHANGED <<nv, val, cls, exprs, dead>>
     ELSE LET lits == [i \in 1..Len(dom) |-> MkLit(nv + i - 1, TRUE)]
              S1 == NewVars(St, Len(dom))
              x == ExoS(S1, lits)
              c == NewClauseS(x.S, <<x.ret>>)
          IN /\ Commit(c.S) /\ dead' = ~c.ok
             /\ ovs' = Append(ovs, [vals |-> dom, lits |-> lits])
  /\ lastOp' = <<"ov_new_var", dom, Len(ovs)>>
  /\ UNCHANGED <<defs, calls, units, ovx, eqs, neq, nprune>>

\* ov_theory::new_var(lits, vals): the literals of 'base', the renamed values
OvDerive(b) ==
  /\ ~dead /\ Len(ovs) < MaxOv /\ b \in 0..(Len(ovs) - 1)
  /\ ovs' = Append(ovs, [vals |-> [i \in DOMAIN ovs[b + 1].vals |-> Rename[ovs[b + 1].vals[i]]], lits |-> ovs[b + 1].lits])
  /\ lastOp' = <<"ov_derived", b, [i \in DOMAIN ovs[b + 1].vals |-> Rename[ovs[b + 1].vals[i]]], Len(ovs)>>
  /\ UNCHANGED <<nv, val, cls, exprs, defs, dead, calls, units, ovx, eqs, neq, nprune>>

RECURSIVE SeqOf(_)
SeqOf(C) == IF C = {} THEN <<>> ELSE LET c == CHOOSE x \in C : TRUE IN <<c>> \o SeqOf(C \ {c})
\* ov_theory::new_eq
EqOv(S, X, l0, r0) ==        \* returns [S, X (cache), ret]
  IF l0 = r0 THEN [S |-> S, X |-> X, ret |-> TrueLit]
  ELSE LET l == IF l0 > r0 THEN r0 ELSE l0
           r == IF l0 > r0 THEN l0 ELSE r0
           k == <<l, r>>
           L == ovs[l + 1]
           R == ovs[r + 1]
           inter == ValsOf(L) \cap ValsOf(R)
       IN IF k \in DOMAIN X THEN [S |-> S, X |-> X, ret |-> X[k]]
          ELSE IF inter = {} THEN [S |-> S, X |-> X, ret |-> FalseLit]
          ELSE LET e == MkLit(S.nv, TRUE)
                   S1 == NewVarS(S)
                   outL == {i \in DOMAIN L.vals : L.vals[i] \notin inter}
                   outR == {i \in DOMAIN R.vals : R.vals[i] \notin inter}
                   \* first the values of the left variable outside the intersection, then those of the right one, then
                   \* the common values (within each group the library follows the iteration order of a hash table: the
                   \* model takes any order; it matters only when value literals are already decided at root level)
                   g1 == {<<NotLit(e), NotLit(L.lits[i])>> : i \in outL}
                   g2 == {<<NotLit(e), NotLit(R.lits[i])>> : i \in outR}
                   RECURSIVE Common(_)
                   Common(I) == IF I = {} THEN <<>>
                                ELSE LET v == CHOOSE x \in I : TRUE
                                     IN << <<NotLit(e), NotLit(LitOf(L, v)), LitOf(R, v)>>, <<NotLit(e), LitOf(L, v), NotLit(LitOf(R, v))>>,
                                           <<e, NotLit(LitOf(L, v)), NotLit(LitOf(R, v))>> >> \o Common(I \ {v})
                   clauses == SeqOf(g1) \o SeqOf(g2) \o Common(inter)
                   a == AddAll(S1, clauses, 1)
               IN IF a.ok THEN [S |-> a.S, X |-> (k :> e) @@ X, ret |-> e] ELSE [S |-> a.S, X |-> X, ret |-> FalseLit]

OvEq(a, b) ==
  /\ ~dead /\ neq < MaxEq /\ a \in 0..(Len(ovs) - 1) /\ b \in 0..(Len(ovs) - 1)
  /\ LET r == EqOv(St, ovx, a, b)
     IN /\ Commit(r.S) /\ ovx' = r.X
        /\ eqs' = eqs \cup {[a |-> a, b |-> b, ret |-> r.ret]}
        /\ lastOp' = <<"ov_new_eq", a, b, r.ret>>
  /\ neq' = neq + 1
  /\ UNCHANGED <<defs, dead, calls, units, ovs, nprune>>

\* the caller prunes / imposes a value, or decides an equality, with a unit clause
OvLits == UNION {SeqRange(ovs[i].lits) : i \in DOMAIN ovs} \cup {e.ret : e \in eqs}
Prune(x) ==
  /\ ~dead /\ nprune < MaxPrune /\ VarOf(x) > 0
  /\ LET r == NewClauseS(St, <<x>>)
     IN Commit(r.S) /\ dead' = ~r.ok /\ lastOp' = <<"new_clause", <<x>>, r.ok>>
  /\ nprune' = nprune + 1
  /\ UNCHANGED <<defs, calls, units, ovs, ovx, eqs, neq>>

OPropagate == Propagate /\ UNCHANGED <<ovs, ovx, eqs, neq, nprune>>

ONext ==
  \/ \E dom \in DomPool : OvNew(dom)
  \/ \E b \in 0..(MaxOv - 1) : OvDerive(b)
  \/ \E a, b \in 0..(MaxOv - 1) : OvEq(a, b)
  \/ \E x \in OvLits : Prune(x) \/ Prune(NotLit(x))
  \/ OPropagate
OSpec == OInit /\ [][ONext]_ovars

\* ---- properties (C14) ---------------------------------------------------------------------------------------------------
OvValueIn(m, ov) == {ov.vals[i] : i \in {j \in DOMAIN ov.vals : LitTrue(m, ov.lits[j])}}
\* ov_theory::value: the values whose literal is not false now
Allowed(ov) == {ov.vals[i] : i \in {j \in DOMAIN ov.vals : V(St, ov.lits[j]) # "F"}}
ExactlyOne == ~dead => \A m \in Models : \A i \in DOMAIN ovs : Cardinality(OvValueIn(m, ovs[i])) = 1
EqualityMeaning ==
  ~dead => \A m \in Models : \A e \in eqs : LitTrue(m, e.ret) = (OvValueIn(m, ovs[e.a + 1]) = OvValueIn(m, ovs[e.b + 1]))
\* value() never loses a value that some model still takes (soundness of the read-out)
ValueSound == ~dead => \A m \in Models : \A i \in DOMAIN ovs : OvValueIn(m, ovs[i]) \subseteq Allowed(ovs[i])
\* while the network is consistent no variable is left without values
NeverEmpty == (~dead /\ Models # {}) => \A i \in DOMAIN ovs : Allowed(ovs[i]) # {}
OConservative ==
  [][(lastOp'[1] = "ov_new_eq" /\ ~dead') => {{v \in m : v < nv} : m \in ModelsOf(nv', val', cls')} = ModelsOf(nv, val, cls)]_ovars
=============================================================================
