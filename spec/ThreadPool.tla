----------------------------- MODULE ThreadPool -----------------------------
(* The thread pool of smt/concurrent/thread_pool.cpp as used by the parallel pivot (C20):   *)
(* one mutex (queue_mutex) protects the task queue and the counter 'active'; ONE condition   *)
(* variable is shared by the idle workers (waiting for a task) and by join() (waiting for    *)
(* active = 0 and an empty queue). The main thread enqueues all the tasks of a pivot         *)
(* (notify_one after each) and then joins. Condition variables are modelled without          *)
(* spurious wake-ups, so a lost wake-up shows up as a deadlock / a violated liveness.        *)
EXTENDS Integers, Sequences, FiniteSets, TLC

CONSTANTS Workers, Tasks
VARIABLES queue,      \* sequence of tasks waiting
          active,     \* number of tasks being run
          toEnq,      \* tasks the main thread still has to enqueue
          wst,        \* worker -> "check" | "blocked" | "run"
          wtask,      \* worker -> task being run (or "none")
          done,       \* tasks completed
          mst         \* main thread: "enq" | "check" | "blocked" | "joined"
vars == <<queue, active, toEnq, wst, wtask, done, mst>>

Blocked == {w \in Workers : wst[w] = "blocked"} \cup (IF mst = "blocked" THEN {"main"} ELSE {})
Wake(S) ==   \* the threads in S leave the wait and will re-check their predicate
  /\ wst' = [w \in Workers |-> IF w \in S /\ wst[w] = "blocked" THEN "check" ELSE wst[w]]
  /\ mst' = IF "main" \in S /\ mst = "blocked" THEN "check" ELSE mst

Init ==
  /\ queue = <<>> /\ active = 0 /\ toEnq = Tasks /\ done = {}
  /\ wst = [w \in Workers |-> "check"] /\ wtask = [w \in Workers |-> "none"]
  /\ mst = "enq"

\* enqueue(f): push under the mutex, then notify_one (any one waiter of the condition variable, or nobody)
Enqueue ==
  /\ mst = "enq" /\ toEnq # {}
  /\ \E t \in toEnq :
       /\ queue' = Append(queue, t)
       /\ toEnq' = toEnq \ {t}
       /\ IF Blocked = {} THEN UNCHANGED <<wst, mst>>
          ELSE \E b \in Blocked : Wake({b})
  /\ UNCHANGED <<active, wtask, done>>
StartJoin == mst = "enq" /\ toEnq = {} /\ mst' = "check" /\ UNCHANGED <<queue, active, toEnq, wst, wtask, done>>
\* join(): wait until active = 0 and the queue is empty (predicate evaluated under the mutex)
JoinCheck ==
  /\ mst = "check"
  /\ mst' = IF active = 0 /\ queue = <<>> THEN "joined" ELSE "blocked"
  /\ UNCHANGED <<queue, active, toEnq, wst, wtask, done>>
\* a worker evaluates its predicate under the mutex: takes a task or blocks
WorkerCheck(w) ==
  /\ wst[w] = "check"
  /\ IF queue # <<>>
     THEN /\ wst' = [wst EXCEPT ![w] = "run"]
          /\ wtask' = [wtask EXCEPT ![w] = Head(queue)]
          /\ queue' = Tail(queue)
          /\ active' = active + 1
     ELSE /\ wst' = [wst EXCEPT ![w] = "blocked"]
          /\ UNCHANGED <<wtask, queue, active>>
  /\ UNCHANGED <<toEnq, done, mst>>
\* the task ends: under the mutex active is decremented and, when it reaches zero, everybody is notified
WorkerFinish(w) ==
  /\ wst[w] = "run"
  /\ done' = done \cup {wtask[w]}
  /\ wtask' = [wtask EXCEPT ![w] = "none"]
  /\ active' = active - 1
  /\ IF active - 1 = 0
     THEN /\ wst' = [x \in Workers |-> IF x = w \/ wst[x] = "blocked" THEN "check" ELSE wst[x]]
          /\ mst' = IF mst = "blocked" THEN "check" ELSE mst
     ELSE /\ wst' = [wst EXCEPT ![w] = "check"] /\ UNCHANGED mst
  /\ UNCHANGED <<queue, toEnq>>

Next == Enqueue \/ StartJoin \/ JoinCheck \/ \E w \in Workers : WorkerCheck(w) \/ WorkerFinish(w)
Spec == Init /\ [][Next]_vars
FairSpec == Spec /\ WF_vars(Next) /\ \A w \in Workers : WF_vars(WorkerCheck(w)) /\ WF_vars(WorkerFinish(w))

TypeOK == active \in 0..Cardinality(Tasks) /\ done \subseteq Tasks
\* join() returns only when every enqueued task has completed
JoinReturnsOnlyWhenAllDone == mst = "joined" => done = Tasks /\ queue = <<>> /\ active = 0
ActiveCountsRunning == active = Cardinality({w \in Workers : wst[w] = "run"})
EachTaskOnce == \A w1, w2 \in Workers : (w1 # w2 /\ wtask[w1] # "none") => wtask[w1] # wtask[w2]
\* no lost wake-up: join() eventually returns
JoinReturns == <>(mst = "joined")
=============================================================================
