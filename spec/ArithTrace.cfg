SPECIFICATION Spec
INVARIANT Canonical
POSTCONDITION Accepted
CHECK_DEADLOCK FALSE
