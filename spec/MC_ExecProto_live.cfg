SPECIFICATION FairSpec
CONSTANTS
  Atoms <- AtomsAB
  Dur <- DurAB
  Prec <- PrecAB
  Release <- RelAB
  H = 4
  MaxDelays = 2
  MaxFailures = 1
  FutureOnly = TRUE
PROPERTY TickReturns
CHECK_DEADLOCK FALSE
