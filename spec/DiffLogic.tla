------------------------------ MODULE DiffLogic ------------------------------
(* Difference logic (C10, C12): constraints  to - from <= w  over time points 0..N-1, point *)
(* 0 being the origin (value 0). Weights are InfRat so that the same module serves the      *)
(* integer theory (integer weights; the negation of  to - from <= d  is  from - to <= -d-1) *)
(* and the real theory (the negation is  from - to <= -d - eps).                            *)
(* The exact closure is Floyd-Warshall; a set of constraints is consistent iff the closure  *)
(* has no negative diagonal entry.                                                          *)
EXTENDS InfRat, Sequences, FiniteSets

DInf == <<PInf, Zero>>
DZero == IRZero
DIsInf(a) == IsPInf(a[1])
DAdd(a, b) == IF DIsInf(a) \/ DIsInf(b) THEN DInf ELSE IRAdd(a, b)
DMin(a, b) == IF IRLe(a, b) THEN a ELSE b

Edge(f, t, w) == [from |-> f, to |-> t, w |-> w]

\* the asserted form of a difference atom [from, to, d] under polarity pos; real selects the theory
AtomEdge(from, to, d, pos, real) ==
  IF pos THEN Edge(from, to, d)
  ELSE Edge(to, from, IF real THEN IRSub(IRNeg(d), <<Zero, One>>) ELSE IRSub(IRNeg(d), IROf(One)))

RECURSIVE MinW(_)
MinW(S) == IF S = {} THEN DInf ELSE LET e == CHOOSE x \in S : TRUE IN DMin(e.w, MinW(S \ {e}))

Pts(N) == 0..(N - 1)
DLInit(N, E) == [p \in Pts(N) \X Pts(N) |->
                   IF p[1] = p[2] THEN DMin(DZero, MinW({e \in E : e.from = p[1] /\ e.to = p[2]}))
                   ELSE MinW({e \in E : e.from = p[1] /\ e.to = p[2]})]
RECURSIVE FWk(_, _, _)
FWk(D, N, k) ==
  IF k = N THEN D
  ELSE FWk([p \in Pts(N) \X Pts(N) |-> DMin(D[p], DAdd(D[<<p[1], k>>], D[<<k, p[2]>>]))], N, k + 1)
\* the tightest distances implied by the edge set E over N points:  D[<<i, j>>] is the least upper bound of j - i
FW(N, E) == FWk(DLInit(N, E), N, 0)
NegCycleIn(D, N) == \E i \in Pts(N) : IRIsNeg(D[<<i, i>>])
Consistent(N, E) == ~NegCycleIn(FW(N, E), N)

\* an atom [from, to, d] is decided true / false by distances D
DecidedTrue(D, a) == IRLe(D[<<a.from, a.to>>], a.d)
DecidedFalse(D, a) == IRLt(D[<<a.to, a.from>>], IRNeg(a.d))
=============================================================================
