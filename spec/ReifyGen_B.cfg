SPECIFICATION GSpec
CONSTANTS
  NU = 2
  MaxCalls = 2
  MaxUnits = 2
  MaxLen = 2
  ArgPool <- NoPool
  Kinds = {"eq", "conj", "disj", "amo", "exo"}
  NestRet = TRUE
  WithConsts = TRUE
  UnitsAfter = TRUE
CHECK_DEADLOCK FALSE
VIEW GView
ACTION_CONSTRAINT Emit
