SPECIFICATION GSpec
CONSTANTS
  N = 3
  Atoms <- Atoms4
  MaxLevel = 2
  Scale = 100
  PropGuardBug = FALSE
  EmitFrom = 0
  SavePredBug = FALSE
VIEW GView
ACTION_CONSTRAINT Emit
CHECK_DEADLOCK FALSE
