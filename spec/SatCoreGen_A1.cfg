SPECIFICATION GSpec
CONSTANTS
  NV = 4
  Pool <- PoolA
  MaxLevel = 2
  MaxLearnt = 1
  CheckPool <- NoChecks
  EmitFrom = 0
  LoseWatchBug = FALSE
CONSTRAINT Bounded
VIEW GView
ACTION_CONSTRAINT Emit
CHECK_DEADLOCK FALSE
