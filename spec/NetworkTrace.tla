---------------------------- MODULE NetworkTrace ----------------------------
(* Trace specification of the constraint network (C07 - C14). One line of the trace is one   *)
(* public call on sat_core / lra_theory / idl_theory / rdl_theory / ov_theory performed by   *)
(* harness/net_driver.cpp, with the hook events raised inside the call (clauses as given,    *)
(* learnt clauses with their origin, definitions of reified and theory literals) and the     *)
(* state visible afterwards (truth values, decisions, bounds, values, distances, domains).   *)
(*                                                                                           *)
(* The specification keeps the abstract network: the set of models of the clauses added so   *)
(* far that are consistent with the meaning of the theory literals. A line is accepted iff   *)
(* the call's result and the visible state satisfy the API contract (DESIGN.md, Appendix A). *)
(* The environment variable VPROP selects the property whose contracts are enforced ("ALL"   *)
(* enforces every contract); state tracking is always performed.                             *)
EXTENDS Network, Json, IOUtils

VARIABLES l,        \* next line of the trace
          n,        \* number of propositional variables (variable 0 is the constant false)
          models,   \* models of clauses /\ theories: sets of true variables
          decs,     \* standing decisions (sequence of literals)
          atoms,    \* theory atoms
          thOK,     \* theory-consistent sign vectors over AtomVars(atoms)
          defs,     \* defining equations of derived LRA variables: [x, e]
          lraVis,   \* LRA variables whose meaning the driver knows (originals and derived)
          ovs,      \* object variables: [id, vals, lits]
          seen,     \* C08: <<truth values, theory observables, decisions>> triples seen since the last creation call
          last      \* observables of the previous line (change detection for the expensive checks)
vars == <<l, n, models, decs, atoms, thOK, defs, lraVis, ovs, seen, last>>

Trace == ndJsonDeserialize(IOEnv.TRACE)
PROP == IF "VPROP" \in DOMAIN IOEnv THEN IOEnv.VPROP ELSE "ALL"

\* a contract belonging to the properties in ps; when it fails the name is printed for the runner
Chk(ps, name, cond) ==
  IF PROP = "ALL" \/ PROP \in ps
  THEN IF cond THEN TRUE ELSE PrintT(<<"CONTRACT", name, l>>) /\ FALSE
  ELSE TRUE

NIdlOf(ev) == Len(ev.obs.idl)
NRdlOf(ev) == Len(ev.obs.rdl)

\* ---- folding the hook events of one call ------------------------------------------------------------------
\* state of the fold: [models, atoms, thOK, ovs, ok]
NewAtom(S, a, nI, nR) ==
  LET fresh == a.v \notin AtomVars(S.atoms)
      atoms2 == S.atoms \cup {a}
      cand == IF fresh THEN S.thOK \cup {s \cup {a.v} : s \in S.thOK} ELSE S.thOK
      ok2 == {s \in cand : ThConsistent(a.th, atoms2, defs, nI, nR, s)}
      av == AtomVars(atoms2)
  IN [S EXCEPT !.atoms = atoms2, !.thOK = ok2, !.models = {m \in S.models : (m \cap av) \in ok2}]

\* sign vectors over the atom variables that occur in some model
Signs(S) == {m \cap AtomVars(S.atoms) : m \in S.models}

HookStep(S, h, nI, nR) ==
  CASE h.k = "clause" -> [S EXCEPT !.models = Filter(S.models, h.lits)]
    [] h.k = "learnt" ->
         IF h.o = 2 THEN [S EXCEPT !.models = Filter(S.models, h.lits)]    \* the no-good of next(): a new clause
         ELSE [S EXCEPT !.ok = S.ok /\ Chk({"C07", "C08", "C09", "C10", "C02", "C11", "C12"}, "LearntEntailed",
                                           (\A m \in S.models : ClauseSat(m, h.lits)) = TRUE)]
    [] h.k = "lra" ->
         LET e == LSub(LinOfJson(h.l), LinOfJson(h.r))
         IN IF VarOf(h.ret) = 0
            THEN \* a constant: the relation (its negation) must hold in every model
                 [S EXCEPT !.ok = S.ok /\ Chk({"C11"}, "LraConstantDecided",
                    (\A s \in Signs(S) :
                        LET cons == LraCons(S.atoms, defs, s, AtomVars(S.atoms))
                        IN EntailsAll(cons, RelCons(IF h.ret = TrueLit THEN h.rel ELSE NegRel(h.rel), e, LConst(Zero)))) = TRUE)]
            ELSE LET a == LraAtom(VarOf(h.ret), IF IsPosLit(h.ret) THEN h.rel ELSE NegRel(h.rel), e)
                     \* a literal that already stands for a relation is answered again (the assertion cache): the new request
                     \* must be equivalent to what the literal stands for - wherever the literal is true the requested
                     \* relation follows from the constraints in force, wherever it is false its negation does
                     shared == a.v \in AtomVars(S.atoms) /\ a \notin S.atoms
                     S1 == [S EXCEPT !.ok = S.ok /\ Chk({"C11", "C09", "C02"}, "SharedLiteralSameMeaning",
                              (shared => \A s \in Signs(S) :
                                 EntailsAll(LraCons(S.atoms, defs, s, AtomVars(S.atoms)), LraAtomCons(a, a.v \in s))) = TRUE)]
                 IN NewAtom(S1, a, nI, nR)
    [] h.k = "dist" ->
         LET th == IF h.real = 1 THEN "rdl" ELSE "idl"
             N == IF h.real = 1 THEN nR ELSE nI
         IN IF VarOf(h.ret) = 0
            THEN [S EXCEPT !.ok = S.ok /\ Chk({"C10", "C12"}, "DistConstantDecided",
                    (\A s \in Signs(S) :
                        LET D == FW(N, DlEdges(S.atoms, th, s, AtomVars(S.atoms)))
                            a == DlAtom(th, 0, h.from, h.to, h.d)
                        IN NegCycleIn(D, N) \/ (IF h.ret = TrueLit THEN DecidedTrue(D, a)
                                                ELSE IF h.real = 1 THEN DecidedFalse(D, a)
                                                ELSE IRLe(D[<<h.to, h.from>>], IRSub(IRNeg(h.d), IROf(One))))) = TRUE)]
            ELSE NewAtom(S, DlAtom(th, VarOf(h.ret), h.from, h.to, h.d), nI, nR)
    [] h.k = "ovvar" -> [S EXCEPT !.ovs = S.ovs \cup {[id |-> h.id, vals |-> h.vals, lits |-> h.lits, free |-> FALSE]}]
    [] OTHER -> S       \* "def", "dl", "oveq": contracts on the final state of the call

RECURSIVE FoldHooks(_, _, _, _, _)
FoldHooks(S, hs, i, nI, nR) == IF i > Len(hs) THEN S ELSE FoldHooks(HookStep(S, hs[i], nI, nR), hs, i + 1, nI, nR)

\* ---- contracts on the final state of a call --------------------------------------------------------------------------
\* C13: reified constructors
DefOK(M, h) ==
  IF h.kind \in {"eq", "conj", "disj"}
  THEN \A m \in M : LitTrue(m, h.ret) = Meaning(h.kind, m, h.args)
  ELSE \A m \in M : LitTrue(m, h.ret) => Meaning(h.kind, m, h.args)
\* an at-most-one / exactly-one literal excludes no assignment of its arguments that satisfies the cardinality constraint:
\* - a freshly built literal: whenever a model satisfies the constraint, some model with the same argument values makes the
\*   literal true (a literal returned from the expression cache may meanwhile have been constrained by the user, so only
\*   fresh ones);
\* - a constant answer: FALSE only if no model satisfies the constraint;
\* - an answer that is one of the arguments or its negation: nothing else decides it, so it must be true in every model
\*   that satisfies the constraint
CardNotExcluding(M, nOld, ev) ==
  LET av == {VarOf(x) : x \in SeqRange(ev.args)}
  IN IF ev.kind \notin {"amo", "exo"} THEN TRUE
     ELSE IF VarOf(ev.ret) >= nOld
          THEN LET withLit == {m \cap av : m \in {mm \in M : LitTrue(mm, ev.ret)}}
               IN \A m0 \in M : Meaning(ev.kind, m0, ev.args) => (m0 \cap av) \in withLit
     ELSE IF VarOf(ev.ret) = 0 \/ VarOf(ev.ret) \in av
          THEN \A m0 \in M : Meaning(ev.kind, m0, ev.args) => LitTrue(m0, ev.ret)
     ELSE TRUE

\* C12: a difference-logic relation literal: in every model, true => the asserted difference constraints entail
\* the relation, false => they entail its negation
DlRelOK(S, h, nI, nR) ==
  LET real == h.real = 1
      th == IF real THEN "rdl" ELSE "idl"
      e == LSub(LinOfJson(h.l), LinOfJson(h.r))
  IN \A m \in S.models :
        LET cons == {EdgeCon(ed) : ed \in DlEdges(S.atoms, th, m, AtomVars(S.atoms))}
        IN IF LitTrue(m, h.ret) THEN DlEntailsRel(cons, real, h.rel, e) ELSE DlEntailsNeg(cons, real, h.rel, e)

\* C14: object variables
OvValue(m, ov) == {ov.vals[i] : i \in {j \in DOMAIN ov.vals : LitTrue(m, ov.lits[j])}}
OvOf(O, id) == CHOOSE ov \in O : ov.id = id
\* (variables created without the built-in exactly-one constraint - "free" - are only subject to OvDomain)
OvExactlyOne(M, O) == \A ov \in {o \in O : ~o.free} : \A m \in M : Cardinality(OvValue(m, ov)) = 1
OvEqOK(M, O, h) == \A m \in M : LitTrue(m, h.ret) = (OvValue(m, OvOf(O, h.a)) = OvValue(m, OvOf(O, h.b)))
OvDomainOK(ev, O) ==
  \A ov \in O : SeqRange(ev.obs.ov[ov.id + 1]) = {ov.vals[i] : i \in {j \in DOMAIN ov.vals : ValOfLit(ev.vals, ov.lits[j]) # 0}}

\* ---- theory observables ------------------------------------------------------------------------------------------------------
Assigned(ev) == {v \in 1..(ev.n - 1) : ev.vals[v + 1] # 2}
TrueVars(ev) == {v \in 1..(ev.n - 1) : ev.vals[v + 1] = 1}

\* C09: linear real arithmetic
LraVal(ev) == [x \in 0..(Len(ev.obs.lra) - 1) |-> ev.obs.lra[x + 1][3]]
LraAsserted(A, ev, dfs) == LraCons(A, dfs, TrueVars(ev), Assigned(ev))
LraValuesOK(A, ev, dfs) ==
  /\ \A c \in LraAsserted(A, ev, dfs) : ConHolds(c, LraVal(ev))
  /\ \A x \in 0..(Len(ev.obs.lra) - 1) :
        /\ IRLe(ev.obs.lra[x + 1][1], ev.obs.lra[x + 1][3])
        /\ IRLe(ev.obs.lra[x + 1][3], ev.obs.lra[x + 1][2])
LraBoundsOK(A, ev, vis, dfs) ==
  \A x \in vis :
     /\ LbValid(LraAsserted(A, ev, dfs), LVar(x, One), ev.obs.lra[x + 1][1])
     /\ UbValid(LraAsserted(A, ev, dfs), LVar(x, One), ev.obs.lra[x + 1][2])

\* C10: difference logic. The logged matrices: integers with 999999 for "no bound" (idl), InfRat (rdl)
IdlD(ev) == [p \in Pts(NIdlOf(ev)) \X Pts(NIdlOf(ev)) |->
               LET x == ev.obs.idl[p[1] + 1][p[2] + 1] IN IF x >= 999999 THEN DInf ELSE IROf(RatOf(x))]
RdlD(ev) == [p \in Pts(NRdlOf(ev)) \X Pts(NRdlOf(ev)) |->
               LET x == ev.obs.rdl[p[1] + 1][p[2] + 1] IN IF IsPInf(x[1]) THEN DInf ELSE x]
DlExact(A, ev, th, N, D) ==
  LET E == DlEdges(A, th, TrueVars(ev), Assigned(ev))
      X == FW(N, E)
  IN /\ ~NegCycleIn(X, N)
     /\ \A p \in Pts(N) \X Pts(N) : IREqv(D[p], X[p])
DlPropagated(A, ev, th, D) ==
  \A a \in {b \in A : b.th = th /\ ev.vals[b.v + 1] = 2} :
     /\ ~DecidedTrue(D, a)
     /\ IF th = "rdl" THEN ~DecidedFalse(D, a) ELSE ~IRLe(D[<<a.to, a.from>>], IRSub(IRNeg(a.d), IROf(One)))

\* C08: the theory observables that must be a function of the assigned literals
ObsKey(ev) == << [x \in 1..Len(ev.obs.lra) |-> <<ev.obs.lra[x][1], ev.obs.lra[x][2]>>], ev.obs.idl, ev.obs.rdl, ev.obs.ov >>

\* ---- C12 queries ----------------------------------------------------------------------------------------------------------------------
IvOfLogged(ev) ==
  IF ev.real = 1 THEN ev.ret
  ELSE << IF ev.ret[1] <= -999999 THEN <<NInf, Zero>> ELSE IF ev.ret[1] >= 999999 THEN DInf ELSE IROf(RatOf(ev.ret[1])),
          IF ev.ret[2] >= 999999 THEN DInf ELSE IF ev.ret[2] <= -999999 THEN <<NInf, Zero>> ELSE IROf(RatOf(ev.ret[2])) >>
NormIv(iv) == << IF IsNInf(iv[1][1]) THEN <<NInf, Zero>> ELSE iv[1], IF IsPInf(iv[2][1]) THEN DInf ELSE iv[2] >>
QueryD(ev) == IF ev.real = 1 THEN RdlD(ev) ELSE IdlD(ev)
QueryOK(ev) ==
  LET D == QueryD(ev)
  IN CASE ev.e = "dl_bounds" -> ev.exc = 0 /\ SameIv(NormIv(IvOfLogged(ev)), NormIv(ExprBounds(D, LinOfJson(ev.l))))
       \* distance(from, to): the interval of  to - from
       [] ev.e = "dl_distance" -> ev.exc = 0 /\ SameIv(NormIv(IvOfLogged(ev)),
                                                       NormIv(ExprBounds(D, LSub(LinOfJson(ev.r), LinOfJson(ev.l)))))
       \* equates: the two expressions may be equal, i.e. 0 lies within the bounds of their difference
       [] ev.e = "dl_equates" ->
            LET iv == ExprBounds(D, LSub(LinOfJson(ev.l), LinOfJson(ev.r)))
            IN ev.exc = 0 /\ (ev.ret = 1) = (~IRIsPos(iv[1]) /\ ~IRIsNeg(iv[2]))

\* ---- one call -----------------------------------------------------------------------------------------------------------------------------
Creation == {"new_var", "new_eq", "new_conj", "new_disj", "new_amo", "new_exo", "lra_new_var", "lra_def", "lra_rel",
             "dl_new_var", "dl_dist", "dl_rel", "ov_new_var", "ov_derived", "ov_new_eq"}
Queries == {"dl_bounds", "dl_distance", "dl_equates"}

DecsOK(ev) ==
  CASE ev.e = "assume" -> SeqPrefix(ev.decs, Append(decs, ev.p))
    [] ev.e = "pop" -> decs # <<>> /\ ev.decs = SubSeq(decs, 1, Len(decs) - 1)
    [] ev.e = "propagate" -> SeqPrefix(ev.decs, decs)
    [] ev.e = "check" -> SeqPrefix(ev.decs, decs)
    [] ev.e = "th_conflict" -> SeqPrefix(ev.decs, decs)
    [] ev.e = "next" -> IF decs = <<>> THEN ev.decs = <<>> /\ ev.ret = 0
                        ELSE SeqPrefix(ev.decs, SubSeq(decs, 1, Len(decs) - 1))
    [] OTHER -> ev.decs = decs

SeqOfJson(s) == s   \* JSON arrays are already sequences

FalseOnlyIfUnsat(ev, M) ==
  CASE ev.e \in {"new_clause", "propagate", "simplify_db", "th_conflict"} -> ev.ret = 0 => M = {}
    [] ev.e = "assume" -> ev.ret = 0 => Under(M, Append(decs, ev.p)) = {}
    [] ev.e = "check" -> ev.ret = 0 => Under(M, decs \o ev.lits) = {}
    [] ev.e = "next" -> (ev.ret = 0 /\ decs # <<>>) => M = {}
    [] OTHER -> TRUE

Step(ev) ==
  LET nI == NIdlOf(ev)
      nR == NRdlOf(ev)
      S0 == [models |-> Extend(models, n, ev.n), atoms |-> atoms, thOK |-> thOK, ovs |-> ovs, ok |-> TRUE]
      S == FoldHooks(S0, ev.hooks, 1, nI, nR)
      M == S.models
      MD == Under(M, ev.decs)
      creation == ev.e \in Creation
      stable == ev.stable = 1 /\ MD # {}
      key == ObsKey(ev)
      changed == key # last
      OvsAfter == IF ev.e = "ov_new_var" /\ ev.free = 1 THEN {IF o.id = ev.ret THEN [o EXCEPT !.free = TRUE] ELSE o : o \in S.ovs} ELSE S.ovs
      defs2 == IF ev.e = "lra_def" THEN defs \cup {[x |-> ev.ret, e |-> LinOfJson(ev.l)]} ELSE defs
      vis2 == IF ev.e \in {"lra_new_var", "lra_def"} THEN lraVis \cup {ev.ret} ELSE lraVis
  IN /\ ev.n >= n
     /\ S.ok
     /\ Chk({"C07"}, "Decisions", DecsOK(ev))
     /\ Chk({"C07", "C09", "C10", "C11", "C12"}, "FalseOnlyIfUnsat", FalseOnlyIfUnsat(ev, M))
     /\ Chk({"C07", "C08", "C13", "C14"}, "Sound", SoundVals(MD, ev.vals) = TRUE)
     /\ Chk({"C07", "C09", "C10"}, "CompleteIsModel",
            (ev.stable = 1 /\ Complete(ev.vals) /\ MD # {}) => ModelOfVals(ev.vals) \in M)
     /\ Chk({"C11", "C13", "C12", "C14"}, "RequestDoesNotConstrain",
            (creation /\ ev.e \notin {"ov_new_var", "ov_derived"}) => ({{v \in m : v < n} : m \in M} = models))
     \* C13
     /\ Chk({"C13"}, "ReifiedMeaning",
            \A i \in DOMAIN ev.hooks : ev.hooks[i].k = "def" => DefOK(M, ev.hooks[i]))
     /\ Chk({"C13"}, "CardinalityNotExcluding",
            ev.e \in {"new_amo", "new_exo"} => CardNotExcluding(M, n, ev))
     \* C12
     /\ Chk({"C12"}, "DlRelationMeaning",
            \A i \in DOMAIN ev.hooks : ev.hooks[i].k = "dl" => DlRelOK(S, ev.hooks[i], nI, nR))
     /\ Chk({"C12"}, "DlRelationAccepted", ev.e = "dl_rel" => ev.exc = 0)
     /\ Chk({"C12"}, "DlQuery", (ev.e \in Queries /\ stable) => QueryOK(ev))
     \* C14
     /\ Chk({"C14"}, "OvExactlyOne", (creation \/ ev.e = "new_clause") => OvExactlyOne(M, OvsAfter))
     /\ Chk({"C14", "C13"}, "OvEquality", \A i \in DOMAIN ev.hooks : ev.hooks[i].k = "oveq" => OvEqOK(M, S.ovs, ev.hooks[i]))
     /\ Chk({"C14"}, "OvDomain", OvDomainOK(ev, S.ovs))
     \* C09
     /\ Chk({"C09", "C11"}, "LraValuesAreModel", stable => LraValuesOK(S.atoms, ev, defs2))
     /\ Chk({"C09", "C11"}, "LraBoundsContainSolutions", (stable /\ changed) => LraBoundsOK(S.atoms, ev, vis2, defs2))
     \* C10
     /\ Chk({"C10", "C12"}, "IdlDistancesExact", (stable /\ changed) => DlExact(S.atoms, ev, "idl", nI, IdlD(ev)))
     /\ Chk({"C10", "C12"}, "RdlDistancesExact", (stable /\ changed) => DlExact(S.atoms, ev, "rdl", nR, RdlD(ev)))
     /\ Chk({"C10"}, "IdlPropagated", stable => DlPropagated(S.atoms, ev, "idl", IdlD(ev)))
     /\ Chk({"C10"}, "RdlPropagated", stable => DlPropagated(S.atoms, ev, "rdl", RdlD(ev)))
     \* C08
     /\ Chk({"C08"}, "DeterminedByAssignedLiterals",
            (ev.stable = 1 /\ ~creation) => \A p \in seen : p[1] = ev.vals => p[2] = key)
     \* the same decisions, standing again later (clauses are only added in between: learnt ones, no-goods): every literal
     \* that had a value then has that value now - nothing that followed from these decisions is lost by undoing others.
     \* (Not with linear-arithmetic atoms: what the simplex propagates depends on its basis.)
     /\ Chk({"C08"}, "SameDecisionsKeepValues",
            (ev.stable = 1 /\ ~creation /\ \A a \in S.atoms : a.th # "lra") =>
               \A p \in seen : p[3] = ev.decs => \A i \in DOMAIN p[1] : p[1][i] # 2 => ev.vals[i] = p[1][i])
     /\ n' = ev.n
     /\ models' = M
     /\ decs' = ev.decs
     /\ atoms' = S.atoms
     /\ thOK' = S.thOK
     /\ ovs' = OvsAfter
     /\ defs' = defs2
     /\ lraVis' = vis2
     /\ seen' = IF creation \/ ev.e = "new_clause" THEN {}
                ELSE IF ev.stable = 1 THEN seen \cup {<<ev.vals, key, ev.decs>>} ELSE seen
     /\ last' = key

Reset ==
  /\ n' = 1 /\ models' = {{}} /\ decs' = <<>> /\ atoms' = {} /\ thOK' = {{}} /\ defs' = {} /\ lraVis' = {}
  /\ ovs' = {} /\ seen' = {} /\ last' = <<>>

Init ==
  /\ l = 1 /\ n = 1 /\ models = {{}} /\ decs = <<>> /\ atoms = {} /\ thOK = {{}} /\ defs = {} /\ lraVis = {}
  /\ ovs = {} /\ seen = {} /\ last = <<>>

Next ==
  /\ l <= Len(Trace)
  /\ l' = l + 1
  /\ CASE Trace[l].e = "reset" -> Reset
       \* a crash, failed assertion or uncaught exception inside the library is never a behaviour of the network
       \* (a line that is not a well-formed event - written by a driver whose memory the library corrupted - likewise)
       [] Trace[l].e \in {"abort", "garbage"} -> Chk({"C07", "C08", "C09", "C10", "C11", "C12", "C13", "C14", "C18", "C20"}, "NoAbort", FALSE) /\ UNCHANGED <<n, models, decs, atoms, thOK, defs, lraVis, ovs, seen, last>>
       [] OTHER -> Step(Trace[l])

Spec == Init /\ [][Next]_vars

Accepted ==
  /\ PrintT(<<"MATCHED", TLCGet("stats").diameter - 1, Len(Trace)>>)
  /\ TLCGet("stats").diameter - 1 = Len(Trace)
=============================================================================
