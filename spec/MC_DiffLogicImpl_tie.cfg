SPECIFICATION Spec
CONSTANTS
  N = 3
  Atoms <- AtomsTie
  MaxLevel = 2
  Scale = 100
  PropGuardBug = FALSE
  SavePredBug = FALSE
INVARIANT DistExact
INVARIANT PropagationComplete
INVARIANT LemmasValid
INVARIANT ConflictIffNegCycle
INVARIANT PopRestoresDists
INVARIANT PopRestoresConstrs
INVARIANT PopRestoresPreds
INVARIANT ExplanationsValid
CHECK_DEADLOCK FALSE
