SPECIFICATION Spec
CONSTANTS
  N = 3
  Atoms <- Atoms4
  MaxLevel = 2
  Scale = 1
  PropGuardBug = FALSE
  SavePredBug = TRUE
INVARIANT DistExact
INVARIANT PropagationComplete
INVARIANT LemmasValid
INVARIANT ConflictIffNegCycle
INVARIANT PopRestoresDists
INVARIANT PopRestoresConstrs
INVARIANT PopRestoresPreds
INVARIANT ExplanationsValid
CHECK_DEADLOCK FALSE
