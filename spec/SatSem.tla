------------------------------- MODULE SatSem -------------------------------
(* Propositional semantics of the constraint network (C07, C13, C14).                        *)
(* Literals are the integers the implementation uses: x = 2 * var + sign, variable 0 is the  *)
(* constant false, so literal 1 is FALSE and literal 0 is TRUE. A model is the set of        *)
(* variables it makes true (never containing 0).                                             *)
EXTENDS Integers, Sequences, FiniteSets

VarOf(x) == x \div 2
IsPosLit(x) == x % 2 = 1
NotLit(x) == IF x % 2 = 1 THEN x - 1 ELSE x + 1
TrueLit == 0
FalseLit == 1
MkLit(v, pos) == 2 * v + (IF pos THEN 1 ELSE 0)

SeqRange(s) == {s[i] : i \in DOMAIN s}

LitTrue(m, x) == (VarOf(x) \in m) = IsPosLit(x)
ClauseSat(m, c) == \E i \in DOMAIN c : LitTrue(m, c[i])          \* c a sequence of literals
AllTrue(m, ls) == \A i \in DOMAIN ls : LitTrue(m, ls[i])          \* ls a sequence of literals (e.g. decisions)
CountTrue(m, S) == Cardinality({x \in S : LitTrue(m, x)})        \* S a SET of literals

\* all assignments to variables lo..hi-1 added to every model of M
Extend(M, lo, hi) == IF lo >= hi THEN M ELSE {m \cup s : m \in M, s \in SUBSET (lo..(hi - 1))}
Project(M, hi) == {{v \in m : v < hi} : m \in M}
Filter(M, c) == {m \in M : ClauseSat(m, c)}
Under(M, decs) == {m \in M : AllTrue(m, decs)}

\* value of a literal logged by the implementation: 0 false, 1 true, 2 undefined (vals is indexed from 1 for var 0)
ValOfVar(vals, v) == vals[v + 1]
ValOfLit(vals, x) ==
  LET b == vals[VarOf(x) + 1]
  IN IF b = 2 THEN 2 ELSE IF IsPosLit(x) THEN b ELSE 1 - b

\* every assigned variable has the value it has in every model of M
SoundVals(M, vals) ==
  \A v \in 1..(Len(vals) - 1) :
     /\ vals[v + 1] = 1 => \A m \in M : v \in m
     /\ vals[v + 1] = 0 => \A m \in M : v \notin m
Complete(vals) == \A i \in DOMAIN vals : vals[i] # 2
ModelOfVals(vals) == {v \in 1..(Len(vals) - 1) : vals[v + 1] = 1}

\* ---- meaning of the reified constructors (C13); args is a sequence of literals: for the cardinality constructors every
\* occurrence counts (x ^ x is false whatever x is, as the truth table of the RIDDLE operator says) ----------
EqMeaning(m, args) == LitTrue(m, args[1]) = LitTrue(m, args[2])
ConjMeaning(m, args) == \A i \in DOMAIN args : LitTrue(m, args[i])
DisjMeaning(m, args) == \E i \in DOMAIN args : LitTrue(m, args[i])
Occurrences(m, args) == Cardinality({i \in DOMAIN args : LitTrue(m, args[i])})
AmoMeaning(m, args) == Occurrences(m, args) <= 1
ExoMeaning(m, args) == Occurrences(m, args) = 1
Meaning(kind, m, args) ==
  CASE kind = "eq" -> EqMeaning(m, args)
    [] kind = "conj" -> ConjMeaning(m, args)
    [] kind = "disj" -> DisjMeaning(m, args)
    [] kind = "amo" -> AmoMeaning(m, args)
    [] kind = "exo" -> ExoMeaning(m, args)
SeqPrefix(s, t) == Len(s) <= Len(t) /\ \A i \in 1..Len(s) : s[i] = t[i]
=============================================================================
