SPECIFICATION GSpec
CONSTANTS
  NU = 2
  MaxCalls = 2
  MaxUnits = 1
  MaxLen = 2
  ArgPool <- NoPool
  Kinds = {"eq", "conj", "disj", "amo", "exo"}
  NestRet = TRUE
  WithConsts = FALSE
  UnitsAfter = TRUE
CHECK_DEADLOCK FALSE
VIEW GView
ACTION_CONSTRAINT Emit
