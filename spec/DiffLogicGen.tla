---------------------------- MODULE DiffLogicGen ----------------------------
(* Test generator bound to DiffLogicImpl: every transition of the model's state graph is printed as one test - the       *)
(* shortest history TLC found to the source state, the action, and the distance matrix the model has after every step.   *)
(* tools/dlreplay.py turns each into calls on the real idl_theory / rdl_theory (decision variables implying the         *)
(* asserted atoms stand for the sat core's propagation within one level) and compares the matrices the library reports   *)
(* with the model's after every level episode, after every pop, and after the backjump that follows a conflict.          *)
(* The model state is hidden behind VIEW (the history is not part of it), so TLC explores exactly the graph of            *)
(* DiffLogicImpl; the action constraint Emit sees every generated transition, new target state or not.                   *)
EXTENDS MC_DiffLogicImpl, Json

CONSTANT EmitFrom    \* 0: every transition is a test (exhaustive search); k: only histories of at least k steps and those ending in
                     \* a conflict are (random walks over the model: tlc -simulate)

VARIABLES ops,     \* the history: <<"assert", id, value, reasons, values, matrix>> | <<"push", values, matrix>> | <<"pop", values, matrix>>
          fresh    \* asserting is possible: at root level always, above it only until the first pop back to the level
                   \* (the public interface offers no way to add a propagation to a level that was returned to)

Mat(d) == [i \in 1..N |-> [j \in 1..N |-> d[<<i - 1, j - 1>>]]]
\* the value of every atom (by id): asserted, else propagated by the theory
Ids == {b.id : b \in Atoms}
EffVals(vl, p) == [i \in Ids |-> LET b == AtomById(i) IN IF vl[b] # "U" THEN vl[b] ELSE p[b]]
GInit == Init /\ ops = <<>> /\ fresh = TRUE
Alive == lastOp[1] # "conflict"      \* a test ends with its conflict
GAssert(a, v) ==
  /\ Alive /\ fresh /\ AssertLit(a, v)
  /\ ops' = Append(ops, <<lastOp'[1], a.id, v, IF lastOp'[1] = "assert" THEN lastOp'[4] ELSE {}, EffVals(val', pv'), Mat(dists')>>) /\ fresh' = fresh
GPush == Alive /\ Push /\ ops' = Append(ops, <<"push", EffVals(val', pv'), Mat(dists')>>) /\ fresh' = TRUE
GPop == Alive /\ Pop /\ ops' = Append(ops, <<"pop", EffVals(val', pv'), Mat(dists')>>) /\ fresh' = (Len(layers) = 1)
GNext == GPush \/ GPop \/ \E a \in Atoms, v \in {"T", "F"} : GAssert(a, v)
GSpec == GInit /\ [][GNext]_<<vars, ops, fresh>>

GView == <<dists, preds, dconstr, val, pv, layers, hist, fresh, lastOp[1] = "conflict">>

\* one line per transition: the history including the new step, the matrices at the standing pushes (the state a backjump
\* to that level must restore), and the description of the atoms
Emit == (Len(ops') >= EmitFrom \/ lastOp'[1] = "conflict") => PrintT(<<"DLTEST", ToJson([ops |-> ops', bases |-> [k \in 1..Len(hist) |-> Mat(hist[k][1])], scale |-> Scale, n |-> N])>>)
AtomsJson == PrintT(<<"DLATOMS", ToJson([a \in {b.id : b \in Atoms} |-> LET b == AtomById(a) IN <<b.from, b.to, b.d>>])>>)
ASSUME AtomsJson
=============================================================================
