------------------------------- MODULE PlanGen -------------------------------
(* Generator and decision procedure for small timeline problems (C02, C04 - C06).            *)
(* A shape is a tiny scheduling problem: one or two StateVariable / ReusableResource         *)
(* instances, two or three interval atoms (facts or goals; on a fixed instance or with the   *)
(* instance left to the planner; fixed or free start; durations 0..2; amounts 1..2) and a    *)
(* horizon. Because all data are integers, the problem has a solution iff it has one with    *)
(* integer start times, so feasibility is decided here by exhaustive enumeration - this is   *)
(* the independent complete decision procedure used as ground truth for "unsolvable only if  *)
(* no solution" (C02); reported solutions are validated separately by PlanTrace (C04-C06).   *)
(* TLC evaluates the ASSUME below and writes every shape with its verdict as NDJSON; the     *)
(* runner (tools/gen_problems.py) renders shapes to RIDDLE text.                             *)
EXTENDS Integers, Sequences, FiniteSets, SequencesExt, Json, IOUtils, TLC

Out == IF "GEN_OUT" \in DOMAIN IOEnv THEN IOEnv.GEN_OUT ELSE "plangen.ndjson"
NAtoms == IF "GEN_ATOMS" \in DOMAIN IOEnv THEN (IF IOEnv.GEN_ATOMS = "3" THEN 3 ELSE 2) ELSE 2

Modes == {"fact", "goal"}
Insts == {0, 1, -1}          \* -1: the instance is an existential variable
Durs == {0, 1, 2}
Starts == {-1, 0, 1, 2}      \* -1: free
Amts == {1, 2}

AtomSpecs(fam, ninst) ==
  {[mode |-> m, inst |-> i, dur |-> d, st |-> s, amt |-> a] :
     m \in Modes, i \in {x \in Insts : x < ninst}, d \in Durs, s \in Starts,
     a \in (IF fam = "rr" THEN Amts ELSE {1})}

\* ---- the decision procedure --------------------------------------------------------------------------
\* an assignment gives every atom an instance and an integer start; end = start + dur
Covers(st, dur, t) == st <= t /\ t < st + dur
Usage(atoms, ass, inst, t) ==
  LET idx == {i \in DOMAIN atoms : ass[i].inst = inst /\ Covers(ass[i].st, atoms[i].dur, t)}
      RECURSIVE Sum(_)
      Sum(S) == IF S = {} THEN 0 ELSE LET i == CHOOSE x \in S : TRUE IN atoms[i].amt + Sum(S \ {i})
  IN Sum(idx)
Valid(sh, ass) ==
  /\ \A i \in DOMAIN sh.atoms :
        /\ sh.atoms[i].inst # -1 => ass[i].inst = sh.atoms[i].inst
        /\ sh.atoms[i].st # -1 => ass[i].st = sh.atoms[i].st
        /\ ass[i].st + sh.atoms[i].dur <= sh.hor
  /\ \A inst \in 0..(sh.ninst - 1), t \in 0..(sh.hor - 1) : Usage(sh.atoms, ass, inst, t) <= sh.cap
Assignments(sh) == [DOMAIN sh.atoms -> [inst : 0..(sh.ninst - 1), st : 0..sh.hor]]
Feasible(sh) == \E ass \in Assignments(sh) : Valid(sh, ass)

\* ---- the shapes --------------------------------------------------------------------------------------------
Seqs(S, n) == IF n = 2 THEN {<<a, b>> : a \in S, b \in S} ELSE {<<a, b, c>> : a \in S, b \in S, c \in S}
\* symmetric duplicates are removed by requiring the atom list to be sorted by a key
Key(a) == (IF a.mode = "fact" THEN 0 ELSE 1) * 1000 + (a.inst + 1) * 100 + a.dur * 20 + (a.st + 1) * 4 + a.amt
Sorted(s) == \A i \in 1..(Len(s) - 1) : Key(s[i]) <= Key(s[i + 1])
Shapes ==
  {[fam |-> f, ninst |-> ni, cap |-> c, hor |-> h, atoms |-> as] :
     f \in {"sv", "rr"}, ni \in {1, 2}, c \in {1, 2}, h \in {2, 3},
     as \in {s \in Seqs(AtomSpecs("rr", 2), NAtoms) : Sorted(s)}}
Wellformed(sh) ==
  /\ sh.fam = "sv" => sh.cap = 1 /\ \A i \in DOMAIN sh.atoms : sh.atoms[i].amt = 1
  /\ \A i \in DOMAIN sh.atoms : sh.atoms[i].inst < sh.ninst
  \* at least two atoms can meet on an instance, otherwise the shape says nothing about timelines
  /\ \E i, j \in DOMAIN sh.atoms : i < j /\ (sh.atoms[i].inst = sh.atoms[j].inst \/ sh.atoms[i].inst = -1 \/ sh.atoms[j].inst = -1)
Problems == {sh \in Shapes : Wellformed(sh)}
WithVerdict(sh) == [fam |-> sh.fam, ninst |-> sh.ninst, cap |-> sh.cap, hor |-> sh.hor, atoms |-> sh.atoms, feasible |-> Feasible(sh)]

ASSUME ndJsonSerialize(Out, SetToSeq({WithVerdict(sh) : sh \in Problems}))
ASSUME PrintT(<<"GENERATED", Cardinality(Problems)>>)

\* a trivial behaviour so that the module can be run by TLC
VARIABLE x
Init == x = 0
Next == x' = x
Spec == Init /\ [][Next]_x
=============================================================================
