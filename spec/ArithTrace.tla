----------------------------- MODULE ArithTrace -----------------------------
(* Trace specification for C15: a register machine over smt::rational (Q), smt::inf_rational *)
(* (E) and smt::lin (L). Every line of the trace is one operator application performed by    *)
(* the real library (harness/arith_driver.cpp); the specification performs the same          *)
(* operation with Rat / InfRat / Lin and accepts the line only if the logged result is the   *)
(* exact, canonical one. Results stay in the registers and feed later operations, so a       *)
(* non-canonical or wrong intermediate value is also exposed by what is computed from it.    *)
EXTENDS Lin, Json, IOUtils

VARIABLES l, Q, E, L
vars == <<l, Q, E, L>>

Trace == ndJsonDeserialize(IOEnv.TRACE)

NQ == 4
NE == 4
NL == 3

Init ==
  /\ l = 1
  /\ Q = [i \in 0..(NQ - 1) |-> Zero]
  /\ E = [i \in 0..(NE - 1) |-> IRZero]
  /\ L = [i \in 0..(NL - 1) |-> LConst(Zero)]

B(b) == IF b THEN 1 ELSE 0

\* ---- rationals -------------------------------------------------------------
QDefined(op, a, b) ==
  CASE op = "add" -> AddDefined(a, b)
    [] op = "sub" -> AddDefined(a, Neg(b))
    [] op = "mul" -> MulDefined(a, b)
    [] op = "div" -> DivDefined(a, b)
QApply(op, a, b) ==
  CASE op = "add" -> Add(a, b)
    [] op = "sub" -> Sub(a, b)
    [] op = "mul" -> Mul(a, b)
    [] op = "div" -> Div(a, b)
QCmp(op, a, b) ==
  CASE op = "lt" -> Lt(a, b)
    [] op = "le" -> Le(a, b)
    [] op = "eq" -> Eq(a, b)
    [] op = "ge" -> Ge(a, b)
    [] op = "gt" -> Gt(a, b)
    [] op = "ne" -> Ne(a, b)

QPreds(a) == << B(IsInt(a)), B(IsZero(a)), B(IsPos(a)), B(a[1] >= 0), B(IsNeg(a)), B(a[1] <= 0),
                B(IsInf(a)), B(IsPInf(a)), B(IsNInf(a)) >>

\* operands of a binary event in one of the five forms
QLeft(ev) ==
  CASE ev.form = "bin" -> Q[ev.a]
    [] ev.form = "asg" -> Q[ev.dst]
    [] ev.form = "binI" -> Q[ev.a]
    [] ev.form = "asgI" -> Q[ev.dst]
    [] ev.form = "Ibin" -> RatOf(ev.k)
QRight(ev) ==
  CASE ev.form = "bin" -> Q[ev.b]
    [] ev.form = "asg" -> Q[ev.b]
    [] ev.form = "binI" -> RatOf(ev.k)
    [] ev.form = "asgI" -> RatOf(ev.k)
    [] ev.form = "Ibin" -> Q[ev.b]

StepQ(ev) ==
  /\ UNCHANGED <<E, L>>
  /\ CASE ev.e = "qmk" ->
            /\ ~(ev.n = 0 /\ ev.d = 0)
            /\ Q' = [Q EXCEPT ![ev.dst] = Norm(ev.n, ev.d)]
            /\ ev.res = Q'[ev.dst]
       [] ev.e = "qop" ->
            /\ QDefined(ev.op, QLeft(ev), QRight(ev))
            /\ Q' = [Q EXCEPT ![ev.dst] = QApply(ev.op, QLeft(ev), QRight(ev))]
            /\ ev.res = Q'[ev.dst]
       [] ev.e = "qneg" ->
            /\ Q' = [Q EXCEPT ![ev.dst] = Neg(Q[ev.a])]
            /\ ev.res = Q'[ev.dst]
       [] ev.e = "qcmp" ->
            /\ UNCHANGED Q
            /\ ev.res = B(QCmp(ev.op, Q[ev.a], IF ev.form = "I" THEN RatOf(ev.k) ELSE Q[ev.b]))
       [] ev.e = "qpred" ->
            /\ UNCHANGED Q
            /\ ev.res = QPreds(Q[ev.a])

\* ---- rationals with an infinitesimal part --------------------------------------
\* right operand kinds: "e" another inf_rational, "q" a rational register, "I" an integer
ERightQ(ev) == IF ev.rk = "q" THEN Q[ev.b] ELSE RatOf(ev.k)
EDefined(op, a, ev) ==
  IF ev.rk = "e"
  THEN CASE op = "add" -> IRAddDefined(a, E[ev.b])
         [] op = "sub" -> IRAddDefined(a, IRNeg(E[ev.b]))
  ELSE CASE op = "add" -> AddDefined(a[1], ERightQ(ev))
         [] op = "sub" -> AddDefined(a[1], Neg(ERightQ(ev)))
         [] op = "mul" -> IRMulDefined(a, ERightQ(ev))
         [] op = "div" -> IRDivDefined(a, ERightQ(ev))
EApply(op, a, ev) ==
  IF ev.rk = "e"
  THEN CASE op = "add" -> IRAdd(a, E[ev.b])
         [] op = "sub" -> IRSub(a, E[ev.b])
  ELSE CASE op = "add" -> <<Add(a[1], ERightQ(ev)), a[2]>>
         [] op = "sub" -> <<Sub(a[1], ERightQ(ev)), a[2]>>
         [] op = "mul" -> IRMul(a, ERightQ(ev))
         [] op = "div" -> IRDiv(a, ERightQ(ev))
\* scalar on the left: q + e, q - e, q * e
ELeftDefined(op, q, b) ==
  CASE op = "add" -> AddDefined(q, b[1])
    [] op = "sub" -> AddDefined(q, Neg(b[1]))
    [] op = "mul" -> IRMulDefined(b, q)
ELeftApply(op, q, b) ==
  CASE op = "add" -> <<Add(q, b[1]), b[2]>>
    [] op = "sub" -> <<Sub(q, b[1]), Neg(b[2])>>
    [] op = "mul" -> IRMul(b, q)
ECmp(op, a, b) ==
  CASE op = "lt" -> IRLt(a, b)
    [] op = "le" -> IRLe(a, b)
    [] op = "eq" -> IREqv(a, b)
    [] op = "ge" -> IRGe(a, b)
    [] op = "gt" -> IRGt(a, b)
    [] op = "ne" -> ~IREqv(a, b)
EPreds(a) == << B(IRIsZero(a)), B(IRIsPos(a)), B(IRIsPos(a) \/ IRIsZero(a)), B(IRIsNeg(a)),
                B(IRIsNeg(a) \/ IRIsZero(a)), B(IRIsInf(a)), B(IRIsInf(a) /\ IRIsPos(a)),
                B(IRIsInf(a) /\ IRIsNeg(a)) >>
\* an inf_rational is well formed when both parts are canonical and the infinitesimal part is finite
EWellFormed(x) == IsCanonical(x[1]) /\ IsCanonical(x[2]) /\ ~IsInf(x[2])

StepE(ev) ==
  /\ UNCHANGED <<Q, L>>
  /\ CASE ev.e = "emk" ->
            /\ ~IsInf(Q[ev.b])
            /\ E' = [E EXCEPT ![ev.dst] = <<Q[ev.a], Q[ev.b]>>]
            /\ ev.res = E'[ev.dst]
       [] ev.e = "eop" ->           \* E[dst] = E[a] op right      (a = dst for compound assignment)
            /\ EDefined(ev.op, E[ev.a], ev)
            /\ E' = [E EXCEPT ![ev.dst] = EApply(ev.op, E[ev.a], ev)]
            /\ ev.res = E'[ev.dst]
       [] ev.e = "elop" ->          \* E[dst] = scalar op E[b]
            /\ ELeftDefined(ev.op, IF ev.lk = "q" THEN Q[ev.a] ELSE RatOf(ev.k), E[ev.b])
            /\ E' = [E EXCEPT ![ev.dst] = ELeftApply(ev.op, IF ev.lk = "q" THEN Q[ev.a] ELSE RatOf(ev.k), E[ev.b])]
            /\ ev.res = E'[ev.dst]
       [] ev.e = "eneg" ->
            /\ E' = [E EXCEPT ![ev.dst] = IRNeg(E[ev.a])]
            /\ ev.res = E'[ev.dst]
       [] ev.e = "ecmp" ->
            /\ UNCHANGED E
            /\ ev.res = B(ECmp(ev.op, E[ev.a],
                               CASE ev.rk = "e" -> E[ev.b]
                                 [] ev.rk = "q" -> IROf(Q[ev.b])
                                 [] ev.rk = "I" -> IROf(RatOf(ev.k))))
       [] ev.e = "epred" ->
            /\ UNCHANGED E
            /\ ev.res = EPreds(E[ev.a])

\* ---- linear expressions -----------------------------------------------------------
\* the logged result denotes the same expression (an explicit zero coefficient is the same as an absent one)
LSame(j, e) ==
  /\ j.k = e.k
  /\ \A x \in DOMAIN j.v \cup DOMAIN e.v :
        (IF x \in DOMAIN j.v THEN j.v[x] ELSE Zero) = LCoef(e, x)
StepL(ev) ==
  /\ UNCHANGED <<Q, E>>
  /\ CASE ev.e = "lset" ->
            L' = [L EXCEPT ![ev.dst] = LinOfJson(ev.res)]
       [] ev.e = "lmk" ->
            /\ ~IsInf(Q[ev.a])
            /\ L' = [L EXCEPT ![ev.dst] = IF ev.x < 0 THEN LConst(Q[ev.a])
                                          ELSE [v |-> (ev.x :> Q[ev.a]), k |-> Zero]]
       [] ev.e = "lop" ->           \* L[dst] = L[a] op right       (a = dst for compound assignment)
            /\ ev.rk = "q" => ~IsInf(Q[ev.b]) /\ (ev.op = "div" => ~IsZero(Q[ev.b]))
            /\ L' = [L EXCEPT ![ev.dst] =
                       IF ev.rk = "l"
                       THEN CASE ev.op = "add" -> LAdd(L[ev.a], L[ev.b])
                              [] ev.op = "sub" -> LSub(L[ev.a], L[ev.b])
                       ELSE CASE ev.op = "add" -> LAddK(L[ev.a], Q[ev.b])
                              [] ev.op = "sub" -> LSubK(L[ev.a], Q[ev.b])
                              [] ev.op = "mul" -> LScale(L[ev.a], Q[ev.b])
                              [] ev.op = "div" -> LDiv(L[ev.a], Q[ev.b])]
       [] ev.e = "llop" ->          \* L[dst] = Q[a] op L[b]
            /\ ~IsInf(Q[ev.a])
            /\ L' = [L EXCEPT ![ev.dst] =
                       CASE ev.op = "add" -> LAddK(L[ev.b], Q[ev.a])
                         [] ev.op = "sub" -> LAddK(LNeg(L[ev.b]), Q[ev.a])
                         [] ev.op = "mul" -> LScale(L[ev.b], Q[ev.a])]
       [] ev.e = "lneg" ->
            /\ L' = [L EXCEPT ![ev.dst] = LNeg(L[ev.a])]
  /\ LSame(LinOfJson(ev.res), L'[ev.dst])

Step(ev) ==
  CASE ev.e \in {"qmk", "qop", "qneg", "qcmp", "qpred"} -> StepQ(ev)
    [] ev.e \in {"emk", "eop", "elop", "eneg", "ecmp", "epred"} -> StepE(ev)
    [] ev.e \in {"lset", "lmk", "lop", "llop", "lneg"} -> StepL(ev)
    [] ev.e = "reset" ->
         /\ Q' = [i \in 0..(NQ - 1) |-> Zero]
         /\ E' = [i \in 0..(NE - 1) |-> IRZero]
         /\ L' = [i \in 0..(NL - 1) |-> LConst(Zero)]

Next == l <= Len(Trace) /\ Step(Trace[l]) /\ l' = l + 1

Spec == Init /\ [][Next]_vars

\* every register always holds a canonical value
Canonical ==
  /\ \A i \in DOMAIN Q : IsCanonical(Q[i])
  /\ \A i \in DOMAIN E : EWellFormed(E[i]) \/ IsInf(E[i][2])
  /\ \A i \in DOMAIN L : IsCanonicalLin(L[i])

Accepted ==
  /\ PrintT(<<"MATCHED", TLCGet("stats").diameter - 1, Len(Trace)>>)
  /\ TLCGet("stats").diameter - 1 = Len(Trace)
=============================================================================
