SPECIFICATION Spec
CONSTANTS
  Atoms <- AtomsABC
  Dur <- DurABC
  Prec <- PrecABC
  Release <- RelABC
  H = 5
  MaxDelays = 2
  MaxFailures = 1
  FutureOnly = TRUE
INVARIANT StartedBeforeEnded
INVARIANT NotBeforeItsTime
INVARIANT NothingStartedMoved
INVARIANT DelayedStartKept
INVARIANT EverythingDispatched
CHECK_DEADLOCK FALSE
