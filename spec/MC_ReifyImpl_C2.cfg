SPECIFICATION Spec
CONSTANTS
  NU = 4
  MaxCalls = 2
  MaxUnits = 1
  MaxLen = 0
  ArgPool <- PoolOne
  Kinds = {"amo", "exo"}
  NestRet = FALSE
  WithConsts = FALSE
  UnitsAfter = FALSE
INVARIANT TypeOK
INVARIANT ReifiedMeaning
INVARIANT CacheSound
PROPERTY Conservative
PROPERTY NotExcluding
CHECK_DEADLOCK FALSE
