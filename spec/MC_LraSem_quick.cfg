SPECIFICATION Spec
CONSTANT MaxCons = 2
INVARIANT Agree
INVARIANT Monotone
CHECK_DEADLOCK FALSE
