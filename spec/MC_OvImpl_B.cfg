SPECIFICATION OSpec
CONSTANTS
  NU = 0
  MaxCalls = 0
  MaxUnits = 0
  MaxLen = 0
  ArgPool <- NoPool
  Kinds <- NoKinds
  NestRet = FALSE
  WithConsts = FALSE
  UnitsAfter = FALSE
  DomPool <- DomsB
  MaxOv = 2
  MaxEq = 1
  MaxPrune = 2
  Rename <- RenA
INVARIANT TypeOK
INVARIANT ExactlyOne
INVARIANT EqualityMeaning
INVARIANT ValueSound
INVARIANT NeverEmpty
PROPERTY OConservative
CHECK_DEADLOCK FALSE
