------------------------------- MODULE Lexer -------------------------------
(* The lexical definition of RIDDLE (C16, C18): the reference tokenisation function Lex.    *)
(* An input is a sequence of one-character strings. Lex returns the sequence of token kinds *)
(* (named as in riddle::symbol), ending in "EOF_ID", or ending in "ERROR" when the input is *)
(* not a token sequence (unterminated comment or string, newline in a string, a second '.'  *)
(* in a numeral, a character that starts no token). Maximal munch; keywords are reserved.   *)
EXTENDS Integers, Sequences, FiniteSets

Lower == {"a","b","c","d","e","f","g","h","i","j","k","l","m","n","o","p","q","r","s","t","u","v","w","x","y","z"}
Upper == {"A","B","C","D","E","F","G","H","I","J","K","L","M","N","O","P","Q","R","S","T","U","V","W","X","Y","Z"}
Digits == {"0","1","2","3","4","5","6","7","8","9"}
IdStart == Lower \cup Upper \cup {"_"}
IdPart == IdStart \cup Digits
Space == {" ", "\t", "\r", "\n"}

Keywords == [ bool |-> "BOOL_ID", int |-> "INT_ID", real |-> "REAL_ID", tp |-> "TP_ID", string |-> "STRING_ID",
              typedef |-> "TYPEDEF_ID", enum |-> "ENUM_ID", class |-> "CLASS_ID", goal |-> "GOAL_ID", fact |-> "FACT_ID",
              predicate |-> "PREDICATE_ID", new |-> "NEW_ID", or |-> "OR_ID", void |-> "VOID_ID", return |-> "RETURN_ID",
              true |-> "BoolLiteral_ID", false |-> "BoolLiteral_ID" ]
\* 'this' is recognised by the parser as an identifier with a special meaning: the lexer may answer THIS_ID or ID_ID
Single == [ c \in {".", ",", ":", ";", "(", ")", "[", "]", "{", "}", "+", "-", "*", "/", "&", "|", "=", ">", "<", "!", "^"} |->
            CASE c = "." -> "DOT_ID" [] c = "," -> "COMMA_ID" [] c = ":" -> "COLON_ID" [] c = ";" -> "SEMICOLON_ID"
              [] c = "(" -> "LPAREN_ID" [] c = ")" -> "RPAREN_ID" [] c = "[" -> "LBRACKET_ID" [] c = "]" -> "RBRACKET_ID"
              [] c = "{" -> "LBRACE_ID" [] c = "}" -> "RBRACE_ID" [] c = "+" -> "PLUS_ID" [] c = "-" -> "MINUS_ID"
              [] c = "*" -> "STAR_ID" [] c = "/" -> "SLASH_ID" [] c = "&" -> "AMP_ID" [] c = "|" -> "BAR_ID"
              [] c = "=" -> "EQ_ID" [] c = ">" -> "GT_ID" [] c = "<" -> "LT_ID" [] c = "!" -> "BANG_ID" [] c = "^" -> "CARET_ID" ]
Double(a, b) ==
  CASE a = "=" /\ b = "=" -> "EQEQ_ID" [] a = "<" /\ b = "=" -> "LTEQ_ID" [] a = ">" /\ b = "=" -> "GTEQ_ID"
    [] a = "!" /\ b = "=" -> "BANGEQ_ID" [] a = "-" /\ b = ">" -> "IMPLICATION_ID" [] OTHER -> ""

At(s, i) == IF i <= Len(s) THEN s[i] ELSE "EOF"

\* end (exclusive) of the run of characters in S starting at i
RECURSIVE RunEnd(_, _, _)
RunEnd(s, i, S) == IF i <= Len(s) /\ s[i] \in S THEN RunEnd(s, i + 1, S) ELSE i
\* the identifier text s[i..j-1] as a string
RECURSIVE Text(_, _, _)
Text(s, i, j) == IF i >= j THEN "" ELSE s[i] \o Text(s, i + 1, j)

\* position after the end of line comment starting at i (after "//"): the newline is left to the whitespace rule
RECURSIVE LineEnd(_, _)
LineEnd(s, i) == IF i > Len(s) \/ s[i] \in {"\r", "\n"} THEN i ELSE LineEnd(s, i + 1)
\* position after the closing "*/" of a block comment whose body starts at i, or 0 when it is not closed
RECURSIVE BlockEnd(_, _)
BlockEnd(s, i) == IF i + 1 > Len(s) THEN 0 ELSE IF s[i] = "*" /\ s[i + 1] = "/" THEN i + 2 ELSE BlockEnd(s, i + 1)
\* position after the closing quote of a string whose body starts at i, or 0 when it is not closed on the line
RECURSIVE StringEnd(_, _)
StringEnd(s, i) ==
  IF i > Len(s) THEN 0
  ELSE IF s[i] = "\"" THEN i + 1
  ELSE IF s[i] \in {"\r", "\n"} THEN 0
  ELSE IF s[i] = "\\" THEN (IF i + 1 > Len(s) THEN 0 ELSE StringEnd(s, i + 2))
  ELSE StringEnd(s, i + 1)

RECURSIVE LexFrom(_, _)
LexFrom(s, i) ==
  LET c == At(s, i)
  IN IF c = "EOF" THEN <<"EOF_ID">>
     ELSE IF c \in Space THEN LexFrom(s, i + 1)
     ELSE IF c = "/" /\ At(s, i + 1) = "/" THEN LexFrom(s, LineEnd(s, i + 2))
     ELSE IF c = "/" /\ At(s, i + 1) = "*" THEN
            (IF BlockEnd(s, i + 2) = 0 THEN <<"ERROR">> ELSE LexFrom(s, BlockEnd(s, i + 2)))
     ELSE IF c = "\"" THEN
            (IF StringEnd(s, i + 1) = 0 THEN <<"ERROR">> ELSE <<"StringLiteral_ID">> \o LexFrom(s, StringEnd(s, i + 1)))
     ELSE IF c \in Digits THEN
            LET j == RunEnd(s, i, Digits)
            IN IF At(s, j) = "."
               THEN LET k == RunEnd(s, j + 1, Digits)
                    IN IF At(s, k) = "." THEN <<"ERROR">> ELSE <<"RealLiteral_ID">> \o LexFrom(s, k)
               ELSE <<"IntLiteral_ID">> \o LexFrom(s, j)
     ELSE IF c = "." /\ At(s, i + 1) \in Digits THEN
            LET k == RunEnd(s, i + 1, Digits)
            IN IF At(s, k) = "." THEN <<"ERROR">> ELSE <<"RealLiteral_ID">> \o LexFrom(s, k)
     ELSE IF c \in IdStart THEN
            LET j == RunEnd(s, i, IdPart)
                w == Text(s, i, j)
            IN <<IF w \in DOMAIN Keywords THEN Keywords[w] ELSE "ID_ID">> \o LexFrom(s, j)
     ELSE IF c \in DOMAIN Single THEN
            (IF Double(c, At(s, i + 1)) # "" THEN <<Double(c, At(s, i + 1))>> \o LexFrom(s, i + 2)
             ELSE <<Single[c]>> \o LexFrom(s, i + 1))
     ELSE <<"ERROR">>
Lex(s) == LexFrom(s, 1)

\* inputs on which the language definition is not agreed upon are not judged: a numeral ending in '.', 'this'
RECURSIVE HasTrailingDot(_, _)
HasTrailingDot(s, i) ==
  IF i > Len(s) THEN FALSE
  ELSE IF s[i] \in Digits /\ At(s, i + 1) = "." /\ At(s, i + 2) \notin Digits /\ (i = 1 \/ s[i - 1] \notin IdPart \cup {"."})
       THEN TRUE ELSE HasTrailingDot(s, i + 1)
Judged(s) == ~HasTrailingDot(s, 1)
\* a token sequence the implementation may answer for 'this' (ID_ID or THIS_ID)
SameTokens(impl, spec) ==
  /\ Len(impl) = Len(spec)
  /\ \A i \in DOMAIN spec : impl[i] = spec[i] \/ (impl[i] = "THIS_ID" /\ spec[i] = "ID_ID")
=============================================================================
