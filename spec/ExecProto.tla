------------------------------ MODULE ExecProto ------------------------------
(* The tick protocol of the executor (C19) as a state machine, at the level a client sees it: a plan of interval      *)
(* atoms with integer times, the current time, which atoms were started / ended, the client's delay requests, failures *)
(* and the re-planning they trigger. One tick() of the implementation is: look at the atoms whose start / end is now    *)
(* ("starting" / "ending" callbacks); if the client asks to delay some of them, adapt the plan and look again (the      *)
(* 'goto manage_tick' loop); otherwise dispatch them ("start" / "end" callbacks) and advance the time by one unit.      *)
(* The planner is abstracted: an adaptation is ANY plan that satisfies the problem's constraints (durations,            *)
(* precedences, horizon), keeps what was started / ended where it is, honours every delay the client asked for and -     *)
(* when FutureOnly holds - does not put an atom that has not started before the current time.                           *)
(* TLC explores every client behaviour (delays of starts and ends, failures) on small plans. The invariants are the     *)
(* state form of the contracts that PlanTrace (executor section) enforces on the traces of the real executor, so a     *)
(* recorded execution is a behaviour of this machine iff PlanTrace accepts it. With FutureOnly = FALSE (re-planning     *)
(* may place a not yet started atom in the past - what the implementation does after failure(), the open finding of     *)
(* C19) EverythingDispatched / StartedBeforeEnded fail: the configuration MC_ExecProto_pastplan.cfg records that.       *)
EXTENDS Integers, FiniteSets, Sequences, TLC

CONSTANTS Atoms,      \* set of atom names
          Dur,        \* [Atoms -> Nat]: minimal durations
          Prec,       \* set of <<a, b>>: a ends before b starts
          Release,    \* [Atoms -> Nat]: earliest start of each atom in the problem
          H,          \* horizon (times 0..H)
          MaxDelays,  \* bound on the number of delay requests of a behaviour
          MaxFailures,
          FutureOnly  \* re-planning never places an atom that has not started before the current time

VARIABLES t, s, e, alive,            \* time; planned start / end of the atoms of the plan; the atoms of the plan
          started, ended, sAt, eAt,  \* dispatched atoms with the times at which they were started / ended
          need,                      \* for atoms whose start was delayed and that have not started: the requested time
          phase, S, E,               \* "idle" | "notified"; the atoms proposed to start / end in this look at the tick
          asked,                     \* atoms for which a delay was requested during the current tick() call
          delays, failures, dead
vars == <<t, s, e, alive, started, ended, sAt, eAt, need, phase, S, E, asked, delays, failures, dead>>

Times == 0..H
\* the plans the (abstract) planner may answer with, for the atoms A, given what is frozen and what was asked
ValidPlan(A, ps, pe, now, st, en, sat, eat, nd) ==
  /\ \A a \in A : /\ ps[a] \in Times /\ pe[a] \in Times
                  /\ pe[a] - ps[a] >= Dur[a] /\ ps[a] >= Release[a]
                  /\ (a \in st => ps[a] = sat[a])                        \* nothing started moves
                  /\ (a \in en => pe[a] = eat[a])
                  /\ (a \in DOMAIN nd /\ a \notin st => ps[a] >= nd[a])  \* a delayed start stays delayed
                  /\ (a \in st /\ a \notin en => pe[a] >= now)           \* an executing atom cannot have ended in the past
                  /\ ((FutureOnly /\ a \notin st) => ps[a] >= now)
  /\ \A p \in Prec : (p[1] \in A /\ p[2] \in A) => pe[p[1]] <= ps[p[2]]
Plans(A, now, st, en, sat, eat, nd) ==
  {pl \in [A -> Times \X Times] :
     ValidPlan(A, [a \in A |-> pl[a][1]], [a \in A |-> pl[a][2]], now, st, en, sat, eat, nd)}

Init ==
  /\ t = 0 /\ alive = Atoms /\ started = {} /\ ended = {} /\ sAt = << >> /\ eAt = << >> /\ need = << >>
  /\ phase = "idle" /\ S = {} /\ E = {} /\ asked = {} /\ delays = 0 /\ failures = 0 /\ dead = FALSE
  /\ \E pl \in Plans(Atoms, 0, {}, {}, << >>, << >>, << >>) : s = [a \in Atoms |-> pl[a][1]] /\ e = [a \in Atoms |-> pl[a][2]]

\* the beginning of tick() and every return to 'manage_tick': which atoms are due now
Look ==
  /\ ~dead /\ phase = "idle" /\ t < H
  /\ LET SS == {a \in alive : s[a] = t /\ a \notin started}
         EE == {a \in alive : e[a] = t /\ a \in started /\ a \notin ended}
     IN IF SS = {} /\ EE = {}
        THEN /\ t' = t + 1 /\ asked' = {} /\ UNCHANGED <<phase, S, E>>          \* nothing due: the time advances
        ELSE /\ phase' = "notified" /\ S' = SS /\ E' = EE /\ UNCHANGED <<t, asked>>
  /\ UNCHANGED <<s, e, alive, started, ended, sAt, eAt, need, delays, failures, dead>>

Replan(A, nd) ==      \* the planner answers with some valid plan, or the execution ends (execution_exception)
  \/ \E pl \in Plans(A, t, started \cap A, ended \cap A, sAt, eAt, nd) :
        /\ s' = [a \in A |-> pl[a][1]] /\ e' = [a \in A |-> pl[a][2]] /\ dead' = FALSE
  \/ /\ Plans(A, t, started \cap A, ended \cap A, sAt, eAt, nd) = {}
     /\ dead' = TRUE /\ UNCHANGED <<s, e>>

\* the client asks, from the "starting" callback, to delay some of the proposed atoms by d
DelayStart(D, d) ==
  /\ ~dead /\ phase = "notified" /\ D # {} /\ D \subseteq S /\ delays < MaxDelays /\ t + d <= H
  /\ LET nd == [a \in (DOMAIN need) \cup D |-> IF a \in D THEN t + d ELSE need[a]]
     IN need' = nd /\ Replan(alive, nd)
  /\ asked' = asked \cup D /\ delays' = delays + 1 /\ phase' = "idle" /\ S' = {} /\ E' = {}
  /\ UNCHANGED <<t, alive, started, ended, sAt, eAt, failures>>
\* ... and from the "ending" callback, to let some atoms go on for d more units
DelayEnd(D, d) ==
  /\ ~dead /\ phase = "notified" /\ D # {} /\ D \subseteq E /\ delays < MaxDelays /\ t + d <= H
  /\ \/ \E pl \in {q \in Plans(alive, t, started, ended, sAt, eAt, need) : \A a \in D : q[a][2] >= t + d} :
           /\ s' = [a \in alive |-> pl[a][1]] /\ e' = [a \in alive |-> pl[a][2]] /\ dead' = FALSE
     \/ /\ {q \in Plans(alive, t, started, ended, sAt, eAt, need) : \A a \in D : q[a][2] >= t + d} = {}
        /\ dead' = TRUE /\ UNCHANGED <<s, e>>
  /\ asked' = asked \cup D /\ delays' = delays + 1 /\ phase' = "idle" /\ S' = {} /\ E' = {}
  /\ UNCHANGED <<t, alive, started, ended, sAt, eAt, need, failures>>

\* no (more) delays: the proposed atoms are started / ended, the time advances
Dispatch ==
  /\ ~dead /\ phase = "notified"
  /\ started' = started \cup S /\ ended' = ended \cup E
  /\ sAt' = [a \in (DOMAIN sAt) \cup S |-> IF a \in S THEN t ELSE sAt[a]]
  /\ eAt' = [a \in (DOMAIN eAt) \cup E |-> IF a \in E THEN t ELSE eAt[a]]
  /\ t' = t + 1 /\ phase' = "idle" /\ S' = {} /\ E' = {} /\ asked' = {}
  /\ UNCHANGED <<s, e, alive, need, delays, failures, dead>>

\* between two ticks an atom that has not ended fails: it leaves the plan, the rest is re-planned
Failure(a) ==
  /\ ~dead /\ phase = "idle" /\ a \in alive /\ a \notin ended /\ failures < MaxFailures
  /\ alive' = alive \ {a}
  /\ started' = started \ {a} /\ ended' = ended
  /\ need' = [x \in (DOMAIN need) \ {a} |-> need[x]]
  /\ LET A == alive \ {a}
     IN \/ \E pl \in Plans(A, t, started \cap A, ended \cap A, sAt, eAt, need') :
              /\ s' = [x \in A |-> pl[x][1]] /\ e' = [x \in A |-> pl[x][2]] /\ dead' = FALSE
        \/ /\ Plans(A, t, started \cap A, ended \cap A, sAt, eAt, need') = {} /\ dead' = TRUE /\ UNCHANGED <<s, e>>
  /\ failures' = failures + 1
  /\ UNCHANGED <<t, sAt, eAt, phase, S, E, asked, delays>>

Next ==
  \/ Look \/ Dispatch
  \/ \E D \in SUBSET Atoms, d \in 1..2 : DelayStart(D, d) \/ DelayEnd(D, d)
  \/ \E a \in Atoms : Failure(a)
Spec == Init /\ [][Next]_vars
FairSpec == Spec /\ WF_vars(Look) /\ WF_vars(Dispatch)

\* ---- the contracts of C19 in state form --------------------------------------------------------------------------------
StartedBeforeEnded == ended \cap alive \subseteq started
NotBeforeItsTime == \A a \in started \cap alive : sAt[a] >= Release[a] /\ (a \in DOMAIN need => sAt[a] >= need[a])
NothingStartedMoved == ~dead => \A a \in alive : (a \in started => s[a] = sAt[a]) /\ (a \in ended => e[a] = eAt[a])
NotDispatchedWhenDelayed == (phase = "notified") => (S \cup E) \cap {} = {}    \* (dispatching is only possible from a look without requests)
DelayedStartKept == ~dead => \A a \in (DOMAIN need) \cap alive : a \notin started => s[a] >= need[a]
\* everything that is due has been dispatched: nothing of the plan lies in the past without having been started / ended
EverythingDispatched ==
  (~dead /\ phase = "idle") => \A a \in alive : (s[a] < t => a \in started) /\ (e[a] < t => a \in ended)
\* a tick() call always returns: the look / delay loop cannot go on for ever (every delay moves the atom out of the current time)
TickReturns == []<>(dead \/ phase = "idle")
=============================================================================
