---------------------------- MODULE SatCoreGen ----------------------------
(* Test generator bound to SatCoreImpl: every transition of the model's state graph is printed as one test - the      *)
(* shortest history TLC found to the source state plus the call - with the assignment, decision level and answer the   *)
(* model has after every call. tools/satreplay.py replays them on the real sat_core through net_driver: where the     *)
(* library's observable state equals the model's after every call, the execution inherits the invariants TLC proved    *)
(* on the model; an execution that deviates is handed to NetworkTrace (the property-level trace specification), which  *)
(* decides whether the deviation breaks C07 / C08.                                                                     *)
EXTENDS MC_SatCoreImpl, Json

CONSTANT EmitFrom    \* 0: every transition is a test (exhaustive search); k: only histories of at least k calls and those that end
                     \* in an inconsistent network are (random walks over the model: tlc -simulate)
VARIABLE ops

Obs == [v |-> [i \in 1..NV |-> val'[i]], dl |-> Len(lim'), dead |-> dead']
Call ==    \* the call just made, from lastOp'
  CASE lastOp'[1] = "new_clause" -> <<"new_clause", Pool[lastOp'[2]], lastOp'[3]>>
    [] lastOp'[1] = "assume" -> <<"assume", lastOp'[2], lastOp'[3]>>
    [] lastOp'[1] = "propagate" -> <<"propagate", lastOp'[2]>>
    [] lastOp'[1] = "next" -> <<"next", lastOp'[2]>>
 [] lastOp'[1] = "check" -> <<"check", lastOp'[2], lastOp'[3]>>
    [] lastOp'[1] = "simplify_db" -> <<"simplify_db", lastOp'[2]>>
    [] OTHER -> <<"pop">>
GInit == Init /\ ops = <<>>
GNext == Next /\ ops' = Append(ops, [call |-> Call, obs |-> Obs])
GSpec == GInit /\ [][GNext]_<<vars, ops>>
GView == vars
Emit == (Len(ops') >= EmitFrom \/ dead') => PrintT(<<"SATTEST", ToJson([ops |-> ops', nv |-> NV])>>)
=============================================================================
