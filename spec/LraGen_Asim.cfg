SPECIFICATION GSpec
CONSTANTS
  NX = 2
  Rows <- RowsA
  Atoms <- AtomsA
  MaxLevel = 3
  WithPairs = FALSE
  EmitFrom = 12
  ReasonBug = FALSE
VIEW GView
ACTION_CONSTRAINT Emit
CHECK_DEADLOCK FALSE
