SPECIFICATION GSpec
CONSTANTS
  N = 3
  Atoms <- Atoms5
  MaxLevel = 3
  Scale = 1
  PropGuardBug = FALSE
  EmitFrom = 0
  SavePredBug = FALSE
VIEW GView
ACTION_CONSTRAINT Emit
CHECK_DEADLOCK FALSE
