---------------------------- MODULE MC_OvImpl ----------------------------
EXTENDS OvImpl
\* overlapping, nested, disjoint and singleton domains over the values 0..4
DomsA == { <<0, 1>>, <<1, 2, 0>>, <<3>>, <<2, 3>> }
DomsB == { <<0, 1, 2>>, <<1, 4>>, <<2>> }
RenA == (0 :> 1) @@ (1 :> 0) @@ (2 :> 2) @@ (3 :> 4) @@ (4 :> 3)
NoPool == {}
NoKinds == {}
=============================================================================
