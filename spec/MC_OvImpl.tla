---------------------------- MODULE MC_OvImpl ----------------------------
EXTENDS OvImpl
\* overlapping, nested, disjoint and singleton domains over the values 0..4
DomsA == { <<0, 1>>, <<1, 2, 0>>, <<3>>, <<2, 3>> }
DomsB == { <<0, 1, 2>>, <<1, 4>>, <<2>> }
RenA == (0 :> 1) @@ (1 :> 0) @@ (2 :> 2) @@ (3 :> 4) @@ (4 :> 3)
\* three variables, three equality requests: chains of equalities (a = b, b = c, then a = c must follow), an equality
\* requested again in the other order (cache), a singleton in the middle of a chain
DomsC == { <<0, 1>>, <<1, 2>>, <<1>> }
NoPool == {}
NoKinds == {}
=============================================================================
