SPECIFICATION Spec
INVARIANT Order
INVARIANT Canon
INVARIANT Field
INVARIANT Inf
INVARIANT Linear
CHECK_DEADLOCK FALSE
