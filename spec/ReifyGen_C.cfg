SPECIFICATION GSpec
CONSTANTS
  NU = 5
  MaxCalls = 1
  MaxUnits = 2
  MaxLen = 0
  ArgPool <- PoolBig
  Kinds = {"amo", "exo"}
  NestRet = FALSE
  WithConsts = FALSE
  UnitsAfter = FALSE
CHECK_DEADLOCK FALSE
VIEW GView
ACTION_CONSTRAINT Emit
