-------------------------------- MODULE Plan --------------------------------
(* What a reported solution of the planner is (C01, C03 - C06): the record written by       *)
(* harness/plan_driver.cpp when solve() returns true, and the predicates it must satisfy.   *)
(*                                                                                          *)
(* A solution record sol has: vals (truth value of every propositional variable: 0 false,   *)
(* 1 true, 2 undefined), lra (value of every arithmetic variable), rdl / idl (earliest      *)
(* times), clauses (every clause given to the network, as given), defs / lras / dists       *)
(* (definitions of reified and theory literals), ops (RIDDLE operators applied to items),   *)
(* asserts (guarded facts), items, objects, atoms, flaws, resolvers, timelines.             *)
EXTENDS SatSem, LraSem, TLC

\* ---- values --------------------------------------------------------------------------------
LV(sol, x) == ValOfLit(sol.vals, x)                      \* Kleene value of a literal: 0, 1, 2
LraValuation(sol) == [x \in 0..(Len(sol.lra) - 1) |-> sol.lra[x + 1]]
\* earliest times of the real difference logic (point 0 is the origin)
RdlValuation(sol) == [x \in 0..(Len(sol.rdl) - 1) |-> IF x = 0 THEN IRZero ELSE sol.rdl[x + 1][1]]
Item(sol, id) == sol.items[id]
\* the value of an arithmetic item: its linear expression on the reported values
ArithValue(sol, id) ==
  LET it == Item(sol, id)
      e == LinOfJson(it.lin)
  IN IF it.type = "tp" THEN LEval(e, RdlValuation(sol)) ELSE LEval(e, LraValuation(sol))
BoolValue(sol, id) == LV(sol, Item(sol, id).l)
\* the values an object-variable item may still take (item ids); a plain object item denotes itself
OvVar(sol, ev) == CHOOSE ov \in SeqRange(sol.ovvars) : ov.id = ev
Domain(sol, id) ==
  LET it == Item(sol, id)
  IN IF it.t = "v"
     THEN LET ov == OvVar(sol, it.ev) IN {ov.vals[i] : i \in {j \in DOMAIN ov.vals : LV(sol, ov.lits[j]) # 0}}
     ELSE {id}
Par(a, name) == (CHOOSE p \in SeqRange(a.pars) : p[1] = name)[2]
HasPar(a, name) == \E p \in SeqRange(a.pars) : p[1] = name
Active(sol, a) == sol.vals[a.sigma + 1] = 1

\* ---- C01: every asserted constraint holds ----------------------------------------------------------
\* a clause is made true (some literal true), or it is not yet binding (at least two undecided literals)
ClauseOK(sol, ls) ==
  \/ \E i \in DOMAIN ls : LV(sol, ls[i]) = 1
  \/ Cardinality({ls[i] : i \in {j \in DOMAIN ls : LV(sol, ls[j]) = 2}}) >= 2
ClausesHold(sol) == \A i \in DOMAIN sol.clauses : ClauseOK(sol, sol.clauses[i].lits)
AssertsHold(sol) == \A i \in DOMAIN sol.asserts : LV(sol, sol.asserts[i].ni) = 1 => LV(sol, sol.asserts[i].f) = 1

\* Kleene evaluation of the reified constructors
NTrue(sol, S) == Cardinality({x \in S : LV(sol, x) = 1})
NUndef(sol, S) == Cardinality({x \in S : LV(sol, x) = 2})
Kleene(sol, kind, args) ==
  LET S == SeqRange(args)
  IN CASE kind = "conj" -> IF \E x \in S : LV(sol, x) = 0 THEN 0 ELSE IF NUndef(sol, S) = 0 THEN 1 ELSE 2
       [] kind = "disj" -> IF \E x \in S : LV(sol, x) = 1 THEN 1 ELSE IF NUndef(sol, S) = 0 THEN 0 ELSE 2
       [] kind = "eq" -> IF LV(sol, args[1]) = 2 \/ LV(sol, args[2]) = 2 THEN 2
                         ELSE IF LV(sol, args[1]) = LV(sol, args[2]) THEN 1 ELSE 0
       [] kind = "amo" -> IF NTrue(sol, S) >= 2 THEN 0 ELSE IF NTrue(sol, S) + NUndef(sol, S) <= 1 THEN 1 ELSE 2
       [] kind = "exo" -> IF NTrue(sol, S) >= 2 THEN 0
                          ELSE IF NUndef(sol, S) = 0 THEN (IF NTrue(sol, S) = 1 THEN 1 ELSE 0) ELSE 2
BoolDefsHold(sol) ==
  \A i \in DOMAIN sol.defs :
     LET d == sol.defs[i]
         r == LV(sol, d.ret)
         k == Kleene(sol, d.kind, d.args)
     IN IF d.kind \in {"eq", "conj", "disj"} THEN (r # 2 /\ k # 2) => r = k
        ELSE r = 1 => k # 0
LraDefsHold(sol) ==
  \A i \in DOMAIN sol.lras :
     LET d == sol.lras[i]
         r == LV(sol, d.ret)
         a == LEval(LinOfJson(d.l), LraValuation(sol))
         b == LEval(LinOfJson(d.r), LraValuation(sol))
     IN /\ r = 1 => RelHolds(d.rel, a, b)
        /\ r = 0 => ~RelHolds(d.rel, a, b)
\* difference constraints of the real theory on the earliest times (the solution the library exposes)
RdlDefsHold(sol) ==
  \A i \in DOMAIN sol.dists :
     LET d == sol.dists[i]
         r == LV(sol, d.ret)
         val == RdlValuation(sol)
     IN (d.real = 1 /\ ~IsInf(val[d.from][1]) /\ ~IsInf(val[d.to][1])) =>
           /\ r = 1 => IRLe(IRSub(val[d.to], val[d.from]), d.d)
           /\ r = 0 => IRGt(IRSub(val[d.to], val[d.from]), d.d)

\* the RIDDLE operators, on the values of their argument items
RECURSIVE SumVals(_, _, _)
SumVals(sol, args, i) == IF i > Len(args) THEN IRZero ELSE IRAdd(ArithValue(sol, args[i]), SumVals(sol, args, i + 1))
RECURSIVE ProdRat(_, _, _)
ProdRat(sol, args, i) == IF i > Len(args) THEN One ELSE Mul(ArithValue(sol, args[i])[1], ProdRat(sol, args, i + 1))
AllRational(sol, args) == \A i \in DOMAIN args : IsZero(ArithValue(sol, args[i])[2])
OpHolds(sol, o) ==
  CASE o.op = "add" -> IREqv(ArithValue(sol, o.res), SumVals(sol, o.args, 1))
    [] o.op = "sub" -> IREqv(ArithValue(sol, o.res), IRSub(ArithValue(sol, o.args[1]), SumVals(sol, o.args, 2)))
    [] o.op = "mult" -> AllRational(sol, o.args) => (ArithValue(sol, o.res) = IROf(ProdRat(sol, o.args, 1)))
    [] o.op = "div" -> (AllRational(sol, o.args) /\ ~IsZero(ProdRat(sol, o.args, 2))) =>
                          (ArithValue(sol, o.res) = IROf(Div(ArithValue(sol, o.args[1])[1], ProdRat(sol, o.args, 2))))
    [] o.op \in {"lt", "leq", "eq", "geq", "gt"} ->
         LET r == BoolValue(sol, o.res)
             a == ArithValue(sol, o.args[1])
             b == ArithValue(sol, o.args[2])
         IN /\ r = 1 => RelHolds(o.op, a, b)
            /\ r = 0 => ~RelHolds(o.op, a, b)
    [] o.op \in {"conj", "disj", "exct_one"} ->
         LET r == BoolValue(sol, o.res)
             ls == [i \in DOMAIN o.args |-> Item(sol, o.args[i]).l]
             k == Kleene(sol, IF o.op = "exct_one" THEN "exo" ELSE o.op, ls)
         IN IF o.op = "exct_one" THEN r = 1 => k # 0 ELSE (r # 2 /\ k # 2) => r = k
    [] OTHER -> TRUE
OpsHold(sol) == \A i \in DOMAIN sol.ops : OpHolds(sol, sol.ops[i])

\* ---- C03: justification and acyclic causal support ---------------------------------------------------------------------
AtomFlaws(sol) == {f \in SeqRange(sol.flaws) : f.kind = "atom"}
AtomOf(sol, id) == CHOOSE a \in SeqRange(sol.atoms) : a.id = id
Resolver(sol, rid) == sol.resolvers[rid]
ChosenResolvers(sol, f) == {rid \in SeqRange(f.resolvers) : LV(sol, Resolver(sol, rid).rho) = 1}
\* two parameter items have the same reported value
SameValue(sol, i, j) ==
  LET a == Item(sol, i)
      b == Item(sol, j)
  IN CASE a.t = "a" /\ b.t = "a" -> IREqv(ArithValue(sol, i), ArithValue(sol, j))
       [] a.t = "b" /\ b.t = "b" -> LV(sol, a.l) = LV(sol, b.l)
       [] a.t = "s" /\ b.t = "s" -> a.str = b.str
       [] a.t \in {"v", "o"} /\ b.t \in {"v", "o"} ->
            \* the same set of objects is still possible for both (equal once decided: the equality literal is true)
            Domain(sol, i) = Domain(sol, j)
       [] OTHER -> FALSE
UnifiedOK(sol, a, t) ==
  /\ sol.vals[a.sigma + 1] = 0
  /\ sol.vals[t.sigma + 1] = 1
  /\ a.pred = t.pred
  /\ \A p \in SeqRange(a.pars) : p[3] = 0 => (HasPar(t, p[1]) /\ SameValue(sol, p[2], Par(t, p[1])))
Justified(sol) ==
  /\ \A f \in AtomFlaws(sol) :
        LET a == AtomOf(sol, f.atom)
        IN /\ LV(sol, f.phi) = 1 =>
                /\ Cardinality(ChosenResolvers(sol, f)) = 1
                /\ LET r == Resolver(sol, CHOOSE rid \in ChosenResolvers(sol, f) : TRUE)
                   IN CASE r.kind = "activate" -> sol.vals[a.sigma + 1] = 1
                        [] r.kind = "unify" -> r.target # 0 /\ UnifiedOK(sol, a, AtomOf(sol, r.target))
                        [] OTHER -> FALSE
           \* an active or unified atom is one the plan requires
           /\ sol.vals[a.sigma + 1] # 2 => LV(sol, f.phi) = 1
  \* whatever a chosen resolver gives rise to belongs to the plan
  /\ \A f \in SeqRange(sol.flaws) :
        (f.causes # <<>> /\ \A i \in DOMAIN f.causes : LV(sol, Resolver(sol, f.causes[i]).rho) = 1) => LV(sol, f.phi) = 1
  \* every flaw of the plan is resolved
  /\ \A f \in SeqRange(sol.flaws) : (LV(sol, f.phi) = 1 /\ f.expanded = 1) => ChosenResolvers(sol, f) # {}

\* support edges between atoms of the plan: a goal supports the atoms its rule introduced, a unified atom is
\* supported by its target
PlanAtomFlaws(sol) == {f \in AtomFlaws(sol) : LV(sol, f.phi) = 1}
ChosenOf(sol, f) == Resolver(sol, CHOOSE rid \in ChosenResolvers(sol, f) : TRUE)
PlanFlaws(sol) == {f \in SeqRange(sol.flaws) : LV(sol, f.phi) = 1}
Children(sol, f) ==       \* flaws introduced by the chosen resolver of f: sub-goals and facts of the rule body, and the
                          \* disjunctions / variable choices of the body, whose chosen resolver introduces further ones
  {g \in PlanFlaws(sol) : \E i \in DOMAIN g.causes : g.causes[i] \in ChosenResolvers(sol, f)}
FlawOfAtom(sol, aid) == CHOOSE f \in AtomFlaws(sol) : f.atom = aid
Succ(sol, f) ==
  Children(sol, f) \cup
  (IF f.kind = "atom" /\ ChosenResolvers(sol, f) # {} /\ ChosenOf(sol, f).kind = "unify" /\ ChosenOf(sol, f).target # 0
   THEN {FlawOfAtom(sol, ChosenOf(sol, f).target)} ELSE {})
RECURSIVE ReachFrom(_, _, _)
ReachFrom(sol, frontier, visited) ==
  IF frontier = {} THEN visited
  ELSE LET nxt == UNION {Succ(sol, f) : f \in frontier} \ visited
       IN ReachFrom(sol, nxt, visited \cup nxt)
\* no atom is supported, through a unification, by an atom it gave rise to
SupportAcyclic(sol) ==
  \A f \in PlanAtomFlaws(sol) :
     (ChosenResolvers(sol, f) # {} /\ ChosenOf(sol, f).kind = "unify" /\ ChosenOf(sol, f).target # 0) =>
        LET t == FlawOfAtom(sol, ChosenOf(sol, f).target)
        IN f \notin ReachFrom(sol, {t}, {t})

\* ---- C04 - C06: timelines ------------------------------------------------------------------------------------------------------------
IvStart(sol, a) == ArithValue(sol, Par(a, "start"))
IvEnd(sol, a) == ArithValue(sol, Par(a, "end"))
\* an atom is assigned to instance o when its tau is o, or a variable whose reported domain is exactly {o}
AssignedTo(sol, a, o) == HasPar(a, "tau") /\ Domain(sol, Par(a, "tau")) = {o}
MaybeOn(sol, a, o) == HasPar(a, "tau") /\ o \in Domain(sol, Par(a, "tau"))
Overlap(s1, e1, s2, e2) == IRLt(s1, e2) /\ IRLt(s2, e1) /\ IRLt(s1, e1) /\ IRLt(s2, e2)
InstancesOf(sol, kind) == {o.id : o \in {ob \in SeqRange(sol.objects) : kind \in SeqRange(ob.supers)}}
AtomsOfKind(sol, kind) == {a \in SeqRange(sol.atoms) : kind \in SeqRange(a.owner) /\ Active(sol, a) /\ a.interval = 1}
NoSvOverlap(sol) ==
  \A o \in InstancesOf(sol, "StateVariable") :
     LET A == {a \in AtomsOfKind(sol, "StateVariable") : AssignedTo(sol, a, o)}
     IN \A a \in A, b \in A : a.id < b.id => ~Overlap(IvStart(sol, a), IvEnd(sol, a), IvStart(sol, b), IvEnd(sol, b))

\* values in the timelines come from the repository's json: {num, den [, inf: {num, den}]}
TlVal(j) == << <<j.num, j.den>>, IF "inf" \in DOMAIN j THEN <<j.inf.num, j.inf.den>> ELSE Zero >>
Timelines(sol, kind) == {tl \in SeqRange(sol.timelines) : "type" \in DOMAIN tl /\ tl.type = kind}
Covers(sol, a, from, to) == IRLe(IvStart(sol, a), from) /\ IRLe(to, IvEnd(sol, a))
SvTimelineAgrees(sol) ==
  \A tl \in Timelines(sol, "StateVariable") :
     \A i \in DOMAIN tl.values :
        LET seg == tl.values[i]
            listed == SeqRange(seg.atoms)
        IN /\ Cardinality(listed) <= 1
           \* the segment lists exactly the active atoms that may be on this instance and cover it
           /\ IRLt(TlVal(seg.from), TlVal(seg.to)) =>
                listed = {a.id : a \in {b \in AtomsOfKind(sol, "StateVariable") :
                                         MaybeOn(sol, b, tl.id) /\ Covers(sol, b, TlVal(seg.from), TlVal(seg.to))}}

Amount(sol, a) == ArithValue(sol, Par(a, "amount"))
RECURSIVE SumAmounts(_, _)
SumAmounts(sol, A) == IF A = {} THEN IRZero
                      ELSE LET a == CHOOSE x \in A : TRUE IN IRAdd(Amount(sol, a), SumAmounts(sol, A \ {a}))
CapacityOf(sol, o) ==
  LET ob == CHOOSE x \in SeqRange(sol.objects) : x.id = o
  IN ArithValue(sol, (CHOOSE p \in SeqRange(ob.fields) : p[1] = "capacity")[2])
RrWithinCapacity(sol) ==
  \A o \in InstancesOf(sol, "ReusableResource") :
     LET A == {a \in AtomsOfKind(sol, "ReusableResource") : AssignedTo(sol, a, o)}
     IN \A p \in A :      \* usage can only increase at a start instant
          IRLt(IvStart(sol, p), IvEnd(sol, p)) =>
             IRLe(SumAmounts(sol, {a \in A : IRLe(IvStart(sol, a), IvStart(sol, p)) /\ IRLt(IvStart(sol, p), IvEnd(sol, a))}),
                  CapacityOf(sol, o))
RrTimelineAgrees(sol) ==
  \A tl \in Timelines(sol, "ReusableResource") :
     \A i \in DOMAIN tl.values :
        LET seg == tl.values[i]
            cover == {b \in AtomsOfKind(sol, "ReusableResource") :
                        MaybeOn(sol, b, tl.id) /\ Covers(sol, b, TlVal(seg.from), TlVal(seg.to))}
        IN IRLt(TlVal(seg.from), TlVal(seg.to)) =>
              /\ SeqRange(seg.atoms) = {a.id : a \in cover}
              /\ IREqv(TlVal(seg.usage), SumAmounts(sol, cover))
              \* when every atom that may be on the instance is assigned to it, the shown usage respects the capacity
              /\ (\A b \in cover : AssignedTo(sol, b, tl.id)) => IRLe(TlVal(seg.usage), TlVal(tl.capacity))

TemporallyWellFormed(sol) ==
  \A a \in SeqRange(sol.atoms) :
     Active(sol, a) =>
        /\ a.interval = 1 =>
             /\ IRLe(sol.origin, IvStart(sol, a)) /\ IRLe(IvStart(sol, a), IvEnd(sol, a)) /\ IRLe(IvEnd(sol, a), sol.horizon)
             /\ HasPar(a, "duration") =>
                  /\ IREqv(ArithValue(sol, Par(a, "duration")), IRSub(IvEnd(sol, a), IvStart(sol, a)))
                  /\ ~IRIsNeg(ArithValue(sol, Par(a, "duration")))
        /\ a.impulse = 1 =>
             /\ IRLe(sol.origin, ArithValue(sol, Par(a, "at"))) /\ IRLe(ArithValue(sol, Par(a, "at")), sol.horizon)
=============================================================================
