SPECIFICATION Spec
CONSTANTS
  NU = 5
  MaxCalls = 1
  MaxUnits = 2
  MaxLen = 0
  ArgPool <- PoolBig
  Kinds = {"amo", "exo"}
  NestRet = FALSE
  WithConsts = FALSE
  UnitsAfter = FALSE
INVARIANT TypeOK
INVARIANT ReifiedMeaning
INVARIANT CacheSound
PROPERTY Conservative
PROPERTY NotExcluding
CHECK_DEADLOCK FALSE
