------------------------------ MODULE InfRat ------------------------------
(* Rationals extended with an infinitesimal part: <<rat, inf>> stands for rat + inf * eps,   *)
(* eps a positive infinitesimal. Reference semantics of smt::inf_rational (C15); used for    *)
(* strict bounds in LRA and RDL.                                                             *)
EXTENDS Rat

IR(r, i) == <<r, i>>
IROf(r) == <<r, Zero>>
IRZero == <<Zero, Zero>>
RatPart(x) == x[1]
InfPart(x) == x[2]

IRIsInf(x) == IsInf(x[1])
IRIsZero(x) == IsZero(x[1]) /\ IsZero(x[2])
IRIsPos(x) == IsPos(x[1]) \/ (IsZero(x[1]) /\ IsPos(x[2]))
IRIsNeg(x) == IsNeg(x[1]) \/ (IsZero(x[1]) /\ IsNeg(x[2]))

\* lexicographic order; an infinite rational part dominates whatever the infinitesimal part
IRLt(a, b) == Lt(a[1], b[1]) \/ (a[1] = b[1] /\ ~IsInf(a[1]) /\ Lt(a[2], b[2]))
IREqv(a, b) == a[1] = b[1] /\ (IsInf(a[1]) \/ a[2] = b[2])   \* same value
IRLe(a, b) == IRLt(a, b) \/ IREqv(a, b)
IRGt(a, b) == IRLt(b, a)
IRGe(a, b) == IRLe(b, a)

IRNeg(a) == <<Neg(a[1]), Neg(a[2])>>
IRAddDefined(a, b) == AddDefined(a[1], b[1]) /\ AddDefined(a[2], b[2])
IRAdd(a, b) == <<Add(a[1], b[1]), Add(a[2], b[2])>>
IRSub(a, b) == <<Sub(a[1], b[1]), Sub(a[2], b[2])>>
IRMulDefined(a, q) == MulDefined(a[1], q) /\ MulDefined(a[2], q)
IRMul(a, q) == <<Mul(a[1], q), Mul(a[2], q)>>           \* by a rational scalar
IRDivDefined(a, q) == DivDefined(a[1], q) /\ DivDefined(a[2], q)
IRDiv(a, q) == <<Div(a[1], q), Div(a[2], q)>>

IRMin(a, b) == IF IRLe(a, b) THEN a ELSE b
IRMax(a, b) == IF IRLe(a, b) THEN b ELSE a
=============================================================================
