SPECIFICATION GSpec
CONSTANTS
  NX = 2
  Rows <- RowsA
  Atoms <- AtomsA
  MaxLevel = 2
  WithPairs = FALSE
  EmitFrom = 0
  ReasonBug = FALSE
VIEW GView
ACTION_CONSTRAINT Emit
CHECK_DEADLOCK FALSE
