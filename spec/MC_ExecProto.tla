---------------------------- MODULE MC_ExecProto ----------------------------
EXTENDS ExecProto
AtomsAB == {"a", "b"}
DurAB == [x \in AtomsAB |-> IF x = "a" THEN 2 ELSE 1]
PrecAB == {<<"a", "b">>}
RelAB == [x \in AtomsAB |-> 0]
AtomsABC == {"a", "b", "c"}
DurABC == [x \in AtomsABC |-> IF x = "a" THEN 2 ELSE 1]
PrecABC == {<<"a", "b">>}
RelABC == [x \in AtomsABC |-> IF x = "c" THEN 1 ELSE 0]
=============================================================================
