------------------------------- MODULE ExprGen -------------------------------
(* Generator and reference evaluator for RIDDLE expressions (C16).                          *)
(* Expression trees over numeric literals, two pinned variables (a = 2, b = 3), unary minus, *)
(* + - * / (products and quotients by constants only: RIDDLE is linear), the six relations   *)
(* and the boolean connectives ! & | ^ -> == !=. Each tree is printed with the minimal       *)
(* parentheses required by the documented precedence (== != lowest, then relations and       *)
(* connectives, then + -, then * /, then unary) and left associativity, and evaluated        *)
(* exactly (Rat). TLC writes (program text, expected value) cases; the real parser + core    *)
(* must give the constrained variable exactly that value.                                    *)
EXTENDS Rat, FiniteSets, SequencesExt, Json, IOUtils, TLC

Out == IF "GEN_OUT" \in DOMAIN IOEnv THEN IOEnv.GEN_OUT ELSE "exprgen.ndjson"
Deep == "GEN_DEEP" \in DOMAIN IOEnv /\ IOEnv.GEN_DEEP = "1"

Lit(s, v) == <<"lit", s, v>>
Var(n, v) == <<"var", n, v>>
Leaves == {Lit("1.0", <<1, 1>>), Lit("2.0", <<2, 1>>), Lit("0.5", <<1, 2>>), Lit("1.5", <<3, 2>>), Lit("3", <<3, 1>>),
           Var("a", <<2, 1>>), Var("b", <<3, 1>>)}
FewLeaves == {Lit("2.0", <<2, 1>>), Lit("0.5", <<1, 2>>), Var("a", <<2, 1>>)}
Un(o, x) == <<o, x>>
Bin(o, x, y) == <<o, x, y>>

IsConst0(t) == t[1] = "lit"
IsConst1(t) == IF t[1] \in {"lit", "var"} THEN t[1] = "lit" ELSE IF t[1] = "neg" THEN IsConst0(t[2]) ELSE IsConst0(t[2]) /\ IsConst0(t[3])
IsConst2(t) == IF t[1] \in {"lit", "var"} THEN t[1] = "lit" ELSE IF t[1] = "neg" THEN IsConst1(t[2]) ELSE IsConst1(t[2]) /\ IsConst1(t[3])

RECURSIVE Eval(_)
Eval(t) ==
  CASE t[1] \in {"lit", "var"} -> t[3]
    [] t[1] = "neg" -> Neg(Eval(t[2]))
    [] t[1] = "add" -> Add(Eval(t[2]), Eval(t[3]))
    [] t[1] = "sub" -> Sub(Eval(t[2]), Eval(t[3]))
    [] t[1] = "mul" -> Mul(Eval(t[2]), Eval(t[3]))
    [] t[1] = "div" -> Div(Eval(t[2]), Eval(t[3]))

\* linear: a product has a constant factor, a quotient a non-zero constant divisor
Linear1(o, x, y) ==
  CASE o = "mul" -> IsConst2(x) \/ IsConst2(y)
    [] o = "div" -> IsConst2(y) /\ ~IsZero(Eval(y))
    [] OTHER -> TRUE
ArOps == {"add", "sub", "mul", "div"}
D1(L) == L \cup {Un("neg", x) : x \in L}
D2(L) == D1(L) \cup {Bin(o, x, y) : o \in ArOps, x \in D1(L), y \in {z \in D1(L) : TRUE}} 
Trees2 == {t \in D2(Leaves) : t[1] \in ArOps => Linear1(t[1], t[2], t[3])}
T2Few == {t \in D2(FewLeaves) : t[1] \in ArOps => Linear1(t[1], t[2], t[3])}
Trees3 == {Bin(o, x, y) : o \in ArOps, x \in T2Few, y \in T2Few} \cup {Un("neg", x) : x \in T2Few}
\* chains of three operands with every pair of operators, grouped to the left and to the right: what precedence and left
\* associativity decide ('a / b * c' is '(a / b) * c'); always generated
ChainLeaves == {Lit("2.0", <<2, 1>>), Lit("0.5", <<1, 2>>), Lit("3", <<3, 1>>), Var("a", <<2, 1>>)}
LinearT(t) == IF t[1] \in ArOps THEN Linear1(t[1], t[2], t[3]) ELSE TRUE
Chains3 == {t \in {Bin(o2, Bin(o1, x, y), z) : o1 \in ArOps, o2 \in ArOps, x \in ChainLeaves, y \in ChainLeaves, z \in ChainLeaves}
                  \cup {Bin(o1, x, Bin(o2, y, z)) : o1 \in ArOps, o2 \in ArOps, x \in ChainLeaves, y \in ChainLeaves, z \in ChainLeaves} :
               LinearT(t) /\ LinearT(t[2]) /\ LinearT(t[3])}
ArTrees == Chains3 \cup (IF Deep THEN Trees2 \cup {t \in Trees3 : t[1] \in ArOps => Linear1(t[1], t[2], t[3])} ELSE Trees2)

\* ---- printing with minimal parentheses ---------------------------------------------------------------------
Prec(t) == CASE t[1] \in {"lit", "var"} -> 5 [] t[1] \in {"neg", "not"} -> 4 [] t[1] \in {"mul", "div"} -> 3 [] t[1] \in {"add", "sub"} -> 2
             [] t[1] \in {"lt", "leq", "geq", "gt", "imp", "or", "and", "xor"} -> 1 [] t[1] \in {"eq", "neq"} -> 0
Sym(o) == CASE o = "add" -> " + " [] o = "sub" -> " - " [] o = "mul" -> " * " [] o = "div" -> " / " [] o = "lt" -> " < " [] o = "leq" -> " <= "
            [] o = "geq" -> " >= " [] o = "gt" -> " > " [] o = "imp" -> " -> " [] o = "or" -> " | " [] o = "and" -> " & " [] o = "xor" -> " ^ "
            [] o = "eq" -> " == " [] o = "neq" -> " != "
RECURSIVE Show(_)
Paren(t, need) == IF need THEN "(" \o Show(t) \o ")" ELSE Show(t)
Show(t) ==
  CASE t[1] \in {"lit", "var"} -> t[2]
    [] t[1] = "neg" -> "-" \o Paren(t[2], Prec(t[2]) < 4)
    [] t[1] = "not" -> "!" \o Paren(t[2], Prec(t[2]) < 4)
    [] OTHER -> Paren(t[2], Prec(t[2]) < Prec(t)) \o Sym(t[1]) \o Paren(t[3], Prec(t[3]) <= Prec(t))

\* ---- boolean expressions --------------------------------------------------------------------------------------
Rels == {"lt", "leq", "geq", "gt", "eq", "neq"}
RelVal(o, x, y) == CASE o = "lt" -> Lt(x, y) [] o = "leq" -> Le(x, y) [] o = "geq" -> Ge(x, y) [] o = "gt" -> Gt(x, y) [] o = "eq" -> x = y [] o = "neq" -> x # y
ArSmall == {Lit("2.0", <<2, 1>>), Var("a", <<2, 1>>), Var("b", <<3, 1>>), Bin("add", Var("a", <<2, 1>>), Lit("1.0", <<1, 1>>)),
            Bin("mul", Lit("2.0", <<2, 1>>), Var("b", <<3, 1>>)), Bin("sub", Var("b", <<3, 1>>), Var("a", <<2, 1>>))}
BLeaves == {Lit("true", TRUE), Lit("false", FALSE), Var("p", TRUE), Var("q", FALSE)}
Atoms == BLeaves \cup {Bin(o, x, y) : o \in Rels, x \in ArSmall, y \in ArSmall}
BOps == {"and", "or", "xor", "imp", "eq", "neq"}
IsArith(t) == IF t[1] \in {"lit", "var"} THEN t[2] \notin {"true", "false", "p", "q"} ELSE t[1] \in {"neg", "add", "sub", "mul", "div"}
RECURSIVE XorOperands(_)
XorOperands(t) == IF t[2][1] = "xor" THEN Append(XorOperands(t[2]), t[3]) ELSE <<t[2], t[3]>>
RECURSIVE BEval(_)
BEval(t) ==
  CASE t[1] \in {"lit", "var"} -> t[3]
    [] t[1] = "not" -> ~BEval(t[2])
    [] t[1] \in {"lt", "leq", "geq", "gt"} -> RelVal(t[1], Eval(t[2]), Eval(t[3]))
    [] t[1] \in {"eq", "neq"} -> IF IsArith(t[2]) THEN RelVal(t[1], Eval(t[2]), Eval(t[3])) ELSE (IF t[1] = "eq" THEN BEval(t[2]) = BEval(t[3]) ELSE BEval(t[2]) # BEval(t[3]))
    [] t[1] = "and" -> BEval(t[2]) /\ BEval(t[3])
    [] t[1] = "or" -> BEval(t[2]) \/ BEval(t[3])
    \* a chain 'x ^ y ^ z' is ONE n-ary exactly-one in RIDDLE (the grammar reads expr ('^' expr)+), not nested binary xors:
    \* the operands of the unparenthesised left spine are counted together
    [] t[1] = "xor" -> LET ops == XorOperands(t) IN Cardinality({i \in DOMAIN ops : BEval(ops[i])}) = 1
    [] t[1] = "imp" -> BEval(t[2]) => BEval(t[3])
BD1 == Atoms \cup {Un("not", x) : x \in BLeaves}
BAtomsFew == BLeaves \cup {Bin("lt", Var("a", <<2, 1>>), Var("b", <<3, 1>>)), Bin("geq", Var("a", <<2, 1>>), Lit("2.0", <<2, 1>>)),
                          Bin("neq", Var("a", <<2, 1>>), Var("b", <<3, 1>>)), Un("not", Var("p", TRUE)), Un("not", Var("q", FALSE))}
\* 'e ^ e' is left out: exactly-one reads its arguments as a set (see C13), so a repeated operand is not a truth-table case
BTrees == BD1 \cup {t \in {Bin(o, x, y) : o \in BOps, x \in BAtomsFew, y \in BAtomsFew} : ~(t[1] = "xor" /\ t[2] = t[3])}
           \cup (IF Deep THEN {Bin(o, Bin(o2, x, y), z) : o \in BOps, o2 \in BOps, x \in BLeaves, y \in BLeaves, z \in BLeaves} ELSE {})

Pre == "real a; real b; a == 2.0; b == 3.0; bool p; bool q; p; !q; "
ArCase(t, i) ==
  LET e == Show(t)
      ctxs == << Pre \o "real r; r == " \o e \o ";",
                 Pre \o "real r; predicate P() { r == " \o e \o "; } goal g = new P();",
                 Pre \o "real r; predicate Q(real x) { r == x; } goal g = new Q(x:" \o e \o ");",
                 Pre \o "real r = " \o e \o ";" >>
  IN [kind |-> "arith", ctx |-> i, text |-> ctxs[i], var |-> "r", value |-> Eval(t), bvalue |-> 0, expr |-> e]
BCase(t, i) ==
  LET e == Show(t)
      w == IF t[1] \in {"lit", "var"} THEN e ELSE "(" \o e \o ")"
      ctxs == << Pre \o "bool r; r == " \o w \o ";",
                 Pre \o "bool r; predicate P() { r == " \o w \o "; } goal g = new P();" >>
  IN [kind |-> "bool", ctx |-> i, text |-> ctxs[i], var |-> "r", value |-> Zero, bvalue |-> IF BEval(t) THEN 1 ELSE 0, expr |-> e]

\* an expression whose leaves are all int literals is of type int: it is not assignable to a real parameter / field
RECURSIVE AllInt(_)
AllInt(t) == IF t[1] = "lit" THEN t[2] = "3" ELSE IF t[1] = "var" THEN FALSE ELSE IF t[1] = "neg" THEN AllInt(t[2]) ELSE AllInt(t[2]) /\ AllInt(t[3])
\* the forms of numeric literals: fractions with leading zeros, trailing zeros, several digits on both sides
LitForms == {Lit("0.05", <<1, 20>>), Lit("1.05", <<21, 20>>), Lit("2.001", <<2001, 1000>>), Lit("0.004", <<1, 250>>), Lit("10.010", <<1001, 100>>),
             Lit("0.25", <<1, 4>>), Lit("7.00", <<7, 1>>), Lit("12.5", <<25, 2>>), Lit("0.125", <<1, 8>>), Lit("100.001", <<100001, 1000>>),
             Lit("0.50", <<1, 2>>), Lit("3.0625", <<49, 16>>), Lit("0.0", <<0, 1>>), Lit("20", <<20, 1>>), Lit("1.10", <<11, 10>>), Lit("0.909", <<909, 1000>>)}
LitTrees == LitForms \cup {Bin("add", l, Var("a", <<2, 1>>)) : l \in LitForms} \cup {Bin("mul", Lit("2.0", <<2, 1>>), l) : l \in LitForms}
Cases == {ArCase(t, i) : t \in LitTrees, i \in 1..2} \cup {ArCase(t, i) : t \in ArTrees, i \in 1..2} \cup {ArCase(t, i) : t \in {u \in ArTrees : ~AllInt(u)}, i \in 3..4}
         \cup {BCase(t, i) : t \in BTrees, i \in 1..2}
ASSUME ndJsonSerialize(Out, SetToSeq(Cases))
ASSUME PrintT(<<"GENERATED", Cardinality(Cases)>>)

VARIABLE x
Init == x = 0
Next == x' = x
Spec == Init /\ [][Next]_x
=============================================================================
