SPECIFICATION GSpec
CONSTANTS
  NU = 3
  MaxCalls = 2
  MaxUnits = 1
  MaxLen = 0
  ArgPool <- PoolDup
  Kinds = {"amo", "exo"}
  NestRet = FALSE
  WithConsts = FALSE
  UnitsAfter = TRUE
CHECK_DEADLOCK FALSE
VIEW GView
ACTION_CONSTRAINT Emit
