SPECIFICATION GSpec
CONSTANTS
  NU = 2
  MaxCalls = 2
  MaxUnits = 1
  MaxLen = 2
  ArgPool <- NoPool
  Kinds = {"conj", "amo", "exo"}
  NestRet = FALSE
  WithConsts = FALSE
  UnitsAfter = TRUE
CHECK_DEADLOCK FALSE
VIEW GView
ACTION_CONSTRAINT Emit
