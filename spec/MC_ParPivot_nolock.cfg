SPECIFICATION Spec
CONSTANTS
  Rows = {r1, r2}
  Vars = {v1, v2}
  Locking = FALSE
INVARIANT MutualExclusion
INVARIANT ResultEqualsSequential
INVARIANT WatchConsistent
PROPERTY Terminates
CHECK_DEADLOCK FALSE
