--------------------------- MODULE MC_ReifyImpl ---------------------------
EXTENDS ReifyImpl
\* four and five arguments (the product encoding), mixed signs, a repeated argument, an argument with its complement
PoolBig == { <<3, 5, 7, 9>>, <<3, 5, 7, 9, 11>>, <<2, 5, 6, 9, 10>>, <<3, 5, 7, 9, 3>>, <<3, 5, 7, 9, 2>>, <<3, 5, 7, 9, 11, 5>> }
PoolOne == { <<3, 5, 7, 9>>, <<9, 7, 5, 3>> }
\* a small constraint and then the same one with one more argument that is repeated, complementary or (after a unit clause
\* in between) decided at root level: the second request must not be answered from the cache entry of the first
PoolDup == { <<3, 5>>, <<5, 3>>, <<3, 3, 5>>, <<3, 5, 3>>, <<3, 5, 7>>, <<7, 3, 5>>, <<3, 5, 6>>, <<2, 5>>, <<3, 5, 2>> }
Yes == TRUE
NoPool == {}
=============================================================================
