--------------------------- MODULE MC_ReifyImpl ---------------------------
EXTENDS ReifyImpl
\* four and five arguments (the product encoding), mixed signs, a repeated argument, an argument with its complement
PoolBig == { <<3, 5, 7, 9>>, <<3, 5, 7, 9, 11>>, <<2, 5, 6, 9, 10>>, <<3, 5, 7, 9, 3>>, <<3, 5, 7, 9, 2>>, <<3, 5, 7, 9, 11, 5>> }
PoolOne == { <<3, 5, 7, 9>>, <<9, 7, 5, 3>> }
NoPool == {}
=============================================================================
