SPECIFICATION GSpec
CONSTANTS
  NU = 0
  MaxCalls = 0
  MaxUnits = 0
  MaxLen = 0
  ArgPool <- NoPool
  Kinds <- NoKinds
  NestRet = FALSE
  WithConsts = FALSE
  UnitsAfter = FALSE
  DomPool <- DomsC
  MaxOv = 3
  MaxEq = 2
  MaxPrune = 1
  Rename <- RenA
CHECK_DEADLOCK FALSE
VIEW GView
ACTION_CONSTRAINT Emit
