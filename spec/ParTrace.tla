------------------------------ MODULE ParTrace ------------------------------
(* C20, differential part: the same call sequence executed by the sequential build and by   *)
(* the PARALLELIZE build of the library (harness/net_driver in replay mode); line i of the   *)
(* trace pairs the i-th call of both executions. A pair is accepted iff every observable is  *)
(* identical: result, truth values, decisions, bounds and values of every arithmetic         *)
(* variable, distances, domains, and the learnt clauses of the call (as a bag: the order in  *)
(* which lemmas of one propagation round are recorded follows the iteration order of a hash  *)
(* set in both builds).                                                                      *)
EXTENDS Integers, Sequences, FiniteSets, Bags, Json, IOUtils, TLC

VARIABLES l
Trace == ndJsonDeserialize(IOEnv.TRACE)
Chk(name, cond) == IF cond THEN TRUE ELSE PrintT(<<"CONTRACT", name, l>>) /\ FALSE

Learnt(ev) == LET idx == {i \in DOMAIN ev.hooks : ev.hooks[i].k = "learnt"}
              IN [c \in {ev.hooks[i].lits : i \in idx} |-> Cardinality({i \in idx : ev.hooks[i].lits = c})]
Same(ev) ==
  LET a == ev.seq
      b == ev.par
  IN /\ Chk("SameCall", a.e = b.e)
     /\ Chk("SameResult", ("ret" \in DOMAIN a) => a.ret = b.ret)
     /\ Chk("SameTruthValues", a.vals = b.vals /\ a.decs = b.decs /\ a.n = b.n)
     /\ Chk("SameBoundsAndValues", a.obs = b.obs)
     /\ Chk("SameLearntClauses", Learnt(a) = Learnt(b))

Init == l = 1
Next == l <= Len(Trace) /\ l' = l + 1 /\ (Trace[l].e = "cmp" => Same(Trace[l]))
Spec == Init /\ [][Next]_l
Accepted ==
  /\ PrintT(<<"MATCHED", TLCGet("stats").diameter - 1, Len(Trace)>>)
  /\ TLCGet("stats").diameter - 1 = Len(Trace)
=============================================================================
