------------------------------ MODULE ReifyImpl ------------------------------
(* Implementation-shaped model of the reified constructors of smt::sat_core (C13): new_eq, new_conj, new_disj,          *)
(* new_at_most_one, new_exct_one as they are written - the sort of the arguments, the scan that folds constants and      *)
(* drops / detects repeated and complementary literals, the expression cache with its keys, the fresh control variable   *)
(* and the clauses that define it (new_clause with its own sort / filter / unit case), the recursive cases of the        *)
(* cardinality constructors (a true argument -> conjunction of negations; a repeated argument -> it must be false; four  *)
(* or more arguments -> the product encoding over fresh row / column variables). The root-level assignment changes only  *)
(* through unit clauses (enqueue) and propagate(), as in the library, so "the value of a literal" means the same thing.  *)
(* TLC checks on every history of the configuration: the literal returned means the formula in every model of the        *)
(* clauses (equivalence for eq / conj / disj, implication for the cardinality constructors, which is what the library     *)
(* offers), every cache entry means its key, a request never constrains the variables that existed before it, a fresh     *)
(* cardinality literal excludes no assignment of its arguments that satisfies the cardinality constraint.                *)
(* spec/ReifyGen.tla prints one test per transition; tools/reifyreplay.py replays them on the library and compares the   *)
(* literal returned, the number of variables and the value of every variable after every call.                           *)
EXTENDS Integers, Sequences, FiniteSets, TLC, SatSem

CONSTANTS NU,        \* variables 1..NU exist from the start (the caller's); variable 0 is the library's constant
          MaxCalls,  \* bound on the number of constructor calls of a history
          MaxUnits,  \* bound on the number of unit clauses given by the caller
          MaxLen,    \* arguments: every sequence of at most MaxLen literals of the domain ...
          ArgPool,   \* ... or, when not empty, exactly these sequences
          Kinds,     \* the constructors of the configuration
          UnitsAfter,\* TRUE: the caller may give unit clauses after the first constructor call too
          NestRet,   \* TRUE: the literal returned by the previous call (and its negation) may be an argument
          WithConsts \* TRUE: TRUE_lit / FALSE_lit may be arguments

VARIABLES nv,      \* number of variables (0..nv-1)
          val,     \* sequence: val[v + 1] \in {"U", "T", "F"}; val[1] = "F" (FALSE_var)
          cls,     \* the clauses of the database, as sets of literals (after new_clause's filter)
          exprs,   \* the expression cache: key -> literal; a key is <<kind, sequence of literals>>
          defs,    \* ghost: every request made so far with the literal returned
          dead,    \* a root-level inconsistency was reported to the caller
          calls, units, lastOp
vars == <<nv, val, cls, exprs, defs, dead, calls, units, lastOp>>

St == [nv |-> nv, val |-> val, cls |-> cls, exprs |-> exprs]
None == -1            \* 'lit p;' (the undefined literal: equal to nothing, complement of nothing)

V(S, x) == LET b == S.val[VarOf(x) + 1] IN IF b = "U" THEN "U" ELSE IF (b = "T") = IsPosLit(x) THEN "T" ELSE "F"
Ret(S, x) == [S |-> S, ret |-> x]
NewVarS(S) == [S EXCEPT !.nv = @ + 1, !.val = Append(@, "U")]       \* the new variable is S.nv
Cached(S, k) == k \in DOMAIN S.exprs
Put(S, k, x) == [S EXCEPT !.exprs = (k :> x) @@ @]
NegAll(ls) == [i \in DOMAIN ls |-> NotLit(ls[i])]

\* std::sort by variable (conj / disj / new_clause) or by literal (cardinality constructors)
Key(x, byVar) == IF byVar THEN VarOf(x) ELSE x
RECURSIVE Insert(_, _, _)
Insert(s, x, bv) == IF s = <<>> THEN <<x>>
                    ELSE IF Key(Head(s), bv) <= Key(x, bv) THEN <<Head(s)>> \o Insert(Tail(s), x, bv) ELSE <<x>> \o s
RECURSIVE Sort(_, _, _)
Sort(rest, acc, bv) == IF rest = <<>> THEN acc ELSE Sort(Tail(rest), Insert(acc, Head(rest), bv), bv)

\* ---- sat_core::new_clause at root level ---------------------------------------------------------------------------------
RECURSIVE ClFilter(_, _, _, _, _)
ClFilter(S, ls, i, p, acc) ==
  IF i > Len(ls) THEN <<"lits", acc>>
  ELSE LET x == ls[i]
       IN IF V(S, x) = "T" \/ (p # None /\ x = NotLit(p)) THEN <<"sat">>
          ELSE IF V(S, x) # "F" /\ x # p THEN ClFilter(S, ls, i + 1, x, Append(acc, x))
          ELSE ClFilter(S, ls, i + 1, p, acc)
NewClauseS(S, ls) ==
  LET f == ClFilter(S, Sort(ls, <<>>, TRUE), 1, None, <<>>)
  IN IF f[1] = "sat" THEN [ok |-> TRUE, S |-> S]
     ELSE IF f[2] = <<>> THEN [ok |-> FALSE, S |-> S]
     ELSE IF Len(f[2]) = 1
          THEN [ok |-> TRUE, S |-> [S EXCEPT !.val[VarOf(f[2][1]) + 1] = IF IsPosLit(f[2][1]) THEN "T" ELSE "F"]]   \* enqueue
          ELSE [ok |-> TRUE, S |-> [S EXCEPT !.cls = @ \cup {SeqRange(f[2])}]]
RECURSIVE AddAll(_, _, _)
AddAll(S, cs, i) ==
  IF i > Len(cs) THEN [ok |-> TRUE, S |-> S]
  ELSE LET r == NewClauseS(S, cs[i]) IN IF r.ok THEN AddAll(r.S, cs, i + 1) ELSE [ok |-> FALSE, S |-> r.S]
\* a control variable with its defining clauses, recorded in the cache; FALSE_lit if a clause is refused
Define(S, k, ClausesFor(_)) ==
  LET c == MkLit(S.nv, TRUE)
      a == AddAll(NewVarS(S), ClausesFor(c), 1)
  IN IF a.ok THEN Ret(Put(a.S, k, c), c) ELSE Ret(a.S, FalseLit)

\* ---- new_eq ---------------------------------------------------------------------------------------------------------------
EqS(S, l, r) ==
  LET vl == V(S, l)
      vr == V(S, r)
  IN IF vl = "T" THEN Ret(S, IF vr = "T" THEN TrueLit ELSE IF vr = "F" THEN FalseLit ELSE r)
     ELSE IF vl = "F" THEN Ret(S, IF vr = "T" THEN FalseLit ELSE IF vr = "F" THEN TrueLit ELSE NotLit(r))
     ELSE IF vr = "T" THEN Ret(S, l)
     ELSE IF vr = "F" THEN Ret(S, NotLit(l))
     ELSE LET k == <<"eq", IF l < r THEN <<l, r>> ELSE <<r, l>> >>
          IN IF Cached(S, k) THEN Ret(S, S.exprs[k])
             ELSE LET Cl(c) == << <<NotLit(c), NotLit(l), r>>, <<NotLit(c), l, NotLit(r)>>,
                                  <<c, NotLit(l), NotLit(r)>>, <<c, l, r>> >>
                  IN Define(S, k, Cl)

\* ---- new_conj / new_disj: the scan; 'absorbing' is the value that decides the whole formula ----------------------------------
RECURSIVE JunctScan(_, _, _, _, _, _)
JunctScan(S, ls, i, p, acc, absorbing) ==
  IF i > Len(ls) THEN <<"lits", acc>>
  ELSE LET x == ls[i]
           neutral == IF absorbing = "F" THEN "T" ELSE "F"
       IN IF V(S, x) = absorbing \/ (p # None /\ x = NotLit(p)) THEN <<"decided">>
          ELSE IF V(S, x) # neutral /\ x # p THEN JunctScan(S, ls, i + 1, x, Append(acc, x), absorbing)
          ELSE JunctScan(S, ls, i + 1, p, acc, absorbing)
ConjS(S, ls0) ==
  LET sc == JunctScan(S, Sort(ls0, <<>>, TRUE), 1, None, <<>>, "F")
  IN IF sc[1] = "decided" THEN Ret(S, FalseLit)
     ELSE LET ls == sc[2]
              k == <<"conj", ls>>
              Cl(c) == [i \in 1..Len(ls) |-> <<NotLit(c), ls[i]>>] \o << <<c>> \o NegAll(ls) >>
          IN IF ls = <<>> THEN Ret(S, TrueLit)
             ELSE IF Len(ls) = 1 THEN Ret(S, ls[1])
             ELSE IF Cached(S, k) THEN Ret(S, S.exprs[k])
             ELSE Define(S, k, Cl)
DisjS(S, ls0) ==
  LET sc == JunctScan(S, Sort(ls0, <<>>, TRUE), 1, None, <<>>, "T")
  IN IF sc[1] = "decided" THEN Ret(S, TrueLit)
     ELSE LET ls == sc[2]
              k == <<"disj", ls>>
              Cl(c) == [i \in 1..Len(ls) |-> <<NotLit(ls[i]), c>>] \o << <<NotLit(c)>> \o ls >>
          IN IF ls = <<>> THEN Ret(S, FalseLit)
             ELSE IF Len(ls) = 1 THEN Ret(S, ls[1])
             ELSE IF Cached(S, k) THEN Ret(S, S.exprs[k])
             ELSE Define(S, k, Cl)

\* ---- the scan of the cardinality constructors ----------------------------------------------------------------------------------
RECURSIVE CardInner(_, _, _, _, _)      \* after the first true argument
CardInner(S, ls, i, p, acc) ==
  IF i > Len(ls) THEN <<"true", acc>>
  ELSE LET x == ls[i]
       IN IF V(S, x) = "T" \/ (p # None /\ x = NotLit(p)) THEN <<"false">>
          ELSE IF V(S, x) # "F" /\ x # p THEN CardInner(S, ls, i + 1, x, Append(acc, x))
          ELSE CardInner(S, ls, i + 1, p, acc)
RECURSIVE CardScan(_, _, _, _, _, _)    \* <<"false">> | <<"true", others>> | <<"none", undecided, repeated>>
CardScan(S, ls, i, p, acc, reps) ==
  IF i > Len(ls) THEN <<"none", acc, reps>>
  ELSE LET x == ls[i]
       IN IF V(S, x) = "T" THEN CardInner(S, ls, i + 1, p, acc)
          ELSE IF V(S, x) # "F" /\ x # p THEN CardScan(S, ls, i + 1, x, Append(acc, x), reps)
          ELSE IF V(S, x) # "F" /\ (reps = <<>> \/ reps[Len(reps)] # p) THEN CardScan(S, ls, i + 1, p, acc, Append(reps, p))
          ELSE CardScan(S, ls, i + 1, p, acc, reps)
Without(ls, reps) == SelectSeq(ls, LAMBDA x : x \notin SeqRange(reps))
CeilSqrt(n) == CHOOSE p \in 1..n : p * p >= n /\ \A q \in 1..(p - 1) : q * q < n
CeilDiv(n, d) == CHOOSE q \in 1..n : q * d >= n /\ \A r \in 1..(q - 1) : r * d < n
RECURSIVE NewVars(_, _)
NewVars(S, k) == IF k = 0 THEN S ELSE NewVars(NewVarS(S), k - 1)

\* ---- new_at_most_one ---------------------------------------------------------------------------------------------------------------
RECURSIVE AmoS(_, _)
AmoS(S, ls0) ==
  LET sc == CardScan(S, Sort(ls0, <<>>, FALSE), 1, None, <<>>, <<>>)
  IN IF sc[1] = "false" THEN Ret(S, FalseLit)
     ELSE IF sc[1] = "true" THEN ConjS(S, NegAll(sc[2]))
     ELSE LET ls == sc[2]
              reps == sc[3]
              n == Len(ls)
              k == <<"amo", ls>>
          IN IF reps # <<>>
             THEN LET a == AmoS(S, Without(ls, reps)) IN ConjS(a.S, NegAll(reps) \o <<a.ret>>)
             ELSE IF n <= 1 THEN Ret(S, TrueLit)
             ELSE IF Cached(S, k) THEN Ret(S, S.exprs[k])
             ELSE IF n < 4
                  THEN LET pairs == IF n = 2 THEN << <<1, 2>> >> ELSE << <<1, 2>>, <<1, 3>>, <<2, 3>> >>
                           Cl(c) == [i \in DOMAIN pairs |-> <<NotLit(ls[pairs[i][1]]), NotLit(ls[pairs[i][2]]), NotLit(c)>>]
                       IN Define(S, k, Cl)
                  ELSE \* the product encoding: ps rows, qs columns
                       LET ps == CeilSqrt(n)
                           qs == CeilDiv(n, ps)
                           u == [i \in 1..ps |-> MkLit(S.nv + i - 1, TRUE)]
                           v == [j \in 1..qs |-> MkLit(S.nv + ps + j - 1, TRUE)]
                           a1 == AmoS(NewVars(S, ps + qs), u)
                           a2 == AmoS(a1.S, v)
                           cj == ConjS(a2.S, <<a1.ret, a2.ret>>)
                           c == cj.ret
                           cells == {p \in (0..(ps - 1)) \X (0..(qs - 1)) : p[1] * qs + p[2] < n}
                           Cl == [i \in 1..(2 * Cardinality(cells)) |->
                                    LET idx == (i - 1) \div 2
                                        p == CHOOSE q \in cells : q[1] * qs + q[2] = idx
                                    IN IF i % 2 = 1 THEN <<NotLit(ls[idx + 1]), u[p[1] + 1], NotLit(c)>>
                                       ELSE <<NotLit(ls[idx + 1]), v[p[2] + 1], NotLit(c)>>]
                           a == AddAll(cj.S, Cl, 1)
                       IN IF a.ok THEN Ret(Put(a.S, k, c), c) ELSE Ret(a.S, FalseLit)

\* variant (overridden with TRUE by MC_ReifyImpl_cachefirst.cfg): the expression cache consulted before the cases 'an argument is
\* true at root level' / 'a repeated argument' - the seeded change C13-i in model form; ReifiedMeaning fails
CacheFirstBug == FALSE

\* ---- new_exct_one ------------------------------------------------------------------------------------------------------------------
RECURSIVE ExoS(_, _)
ExoS(S, ls0) ==
  LET sc == CardScan(S, Sort(ls0, <<>>, FALSE), 1, None, <<>>, <<>>)
  IN IF sc[1] = "false" THEN Ret(S, FalseLit)
     ELSE IF CacheFirstBug /\ sc[1] = "true" /\ Cached(S, <<"exo", sc[2]>>) THEN Ret(S, S.exprs[<<"exo", sc[2]>>])
     ELSE IF sc[1] = "true" THEN ConjS(S, NegAll(sc[2]))
     ELSE LET ls == sc[2]
              reps == sc[3]
              k == <<"exo", ls>>
          IN IF CacheFirstBug /\ reps # <<>> /\ Cached(S, <<"exo", Without(ls, reps)>>) THEN Ret(S, S.exprs[<<"exo", Without(ls, reps)>>])
             ELSE IF reps # <<>>
             THEN LET a == ExoS(S, Without(ls, reps)) IN ConjS(a.S, NegAll(reps) \o <<a.ret>>)
             ELSE IF ls = <<>> THEN Ret(S, FalseLit)
             ELSE IF Len(ls) = 1 THEN Ret(S, ls[1])
             ELSE IF Cached(S, k) THEN Ret(S, S.exprs[k])
             ELSE LET amo == AmoS(S, ls)
                      Cl(c) == << <<NotLit(c), amo.ret>>, Append(ls, NotLit(c)) >>
                  IN Define(amo.S, k, Cl)

Apply(kind, S, args) ==
  CASE kind = "eq" -> EqS(S, args[1], args[2])
    [] kind = "conj" -> ConjS(S, args)
    [] kind = "disj" -> DisjS(S, args)
    [] kind = "amo" -> AmoS(S, args)
    [] kind = "exo" -> ExoS(S, args)

\* ---- sat_core::propagate at root level (no theories): the closure under unit propagation -----------------------------------------
RECURSIVE Bcp(_)
Bcp(S) ==
  LET open == {c \in S.cls : \A x \in c : V(S, x) # "T"}
      confl == {c \in open : \A x \in c : V(S, x) = "F"}
      unit == {c \in open : Cardinality({x \in c : V(S, x) = "U"}) = 1}
  IN IF confl # {} THEN [ok |-> FALSE, S |-> S]
     ELSE IF unit = {} THEN [ok |-> TRUE, S |-> S]
     ELSE LET c == CHOOSE d \in unit : TRUE
              x == CHOOSE y \in c : V(S, y) = "U"
          IN Bcp([S EXCEPT !.val[VarOf(x) + 1] = IF IsPosLit(x) THEN "T" ELSE "F"])

\* ---- the calls ---------------------------------------------------------------------------------------------------------------------------
Commit(S) == nv' = S.nv /\ val' = S.val /\ cls' = S.cls /\ exprs' = S.exprs

Init ==
  /\ nv = NU + 1 /\ val = [i \in 1..(NU + 1) |-> IF i = 1 THEN "F" ELSE "U"] /\ cls = {} /\ exprs = << >>
  /\ defs = {} /\ dead = FALSE /\ calls = 0 /\ units = 0 /\ lastOp = <<"init">>

UserLits == 2..(2 * NU + 1)
LastRet == IF lastOp[1] \in Kinds /\ VarOf(lastOp[3]) > 0 THEN {lastOp[3], NotLit(lastOp[3])} ELSE {}
Dom == UserLits \cup (IF WithConsts THEN {TrueLit, FalseLit} ELSE {}) \cup (IF NestRet THEN LastRet ELSE {})
ArgSeqs(kind) ==
  IF ArgPool # {} THEN {s \in ArgPool : kind = "eq" => Len(s) = 2}
  ELSE IF kind = "eq" THEN [1..2 -> Dom]
  ELSE UNION {[1..k -> Dom] : k \in 0..MaxLen}

Reify(kind, args) ==
  /\ ~dead /\ calls < MaxCalls
  /\ LET r == Apply(kind, St, args)
     IN /\ Commit(r.S)
        /\ defs' = defs \cup {[ret |-> r.ret, kind |-> kind, args |-> args]}
        /\ lastOp' = <<kind, args, r.ret>>
  /\ calls' = calls + 1 /\ UNCHANGED <<dead, units>>

Unit(x) ==
  /\ ~dead /\ units < MaxUnits /\ (calls = 0 \/ UnitsAfter)
  /\ LET r == NewClauseS(St, <<x>>)
     IN Commit(r.S) /\ dead' = ~r.ok /\ lastOp' = <<"new_clause", <<x>>, r.ok>>
  /\ units' = units + 1 /\ UNCHANGED <<defs, calls>>

Propagate ==
  /\ ~dead /\ lastOp[1] # "propagate"
  /\ LET r == Bcp(St)
     IN Commit(r.S) /\ dead' = ~r.ok /\ lastOp' = <<"propagate", r.ok>>
  /\ UNCHANGED <<defs, calls, units>>

Next ==
  \/ \E kind \in Kinds : \E args \in ArgSeqs(kind) : Reify(kind, args)
  \/ \E x \in UserLits : Unit(x)
  \/ Propagate
Spec == Init /\ [][Next]_vars

\* ---- properties (C13) -------------------------------------------------------------------------------------------------------------------
ModelsOf(n, vl, cs) ==
  LET fixed == {v \in 1..(n - 1) : vl[v + 1] = "T"}
      free == {v \in 1..(n - 1) : vl[v + 1] = "U"}
  IN {fixed \cup s : s \in {t \in SUBSET free : \A c \in cs : \E x \in c : LitTrue(fixed \cup t, x)}}
Models == ModelsOf(nv, val, cls)
Means(m, x, kind, args) ==
  IF kind \in {"eq", "conj", "disj"} THEN LitTrue(m, x) = Meaning(kind, m, args) ELSE LitTrue(m, x) => Meaning(kind, m, args)
\* every literal ever returned means its formula in every model of the network, now and after whatever followed
ReifiedMeaning == ~dead => \A m \in Models : \A d \in defs : Means(m, d.ret, d.kind, d.args)
\* every entry of the expression cache means its key
CacheSound == ~dead => \A m \in Models : \A k \in DOMAIN exprs : Means(m, exprs[k], k[1], k[2])
\* a constructor never reports an inconsistency and never makes the network inconsistent
TypeOK == /\ Len(val) = nv /\ val[1] = "F"
          /\ \A c \in cls : \A x \in c : VarOf(x) \in 1..(nv - 1)
          /\ \A d \in defs : VarOf(d.ret) < nv
\* a request never constrains what existed before it: every model of the network before the call extends to one after it
Conservative ==
  [][(lastOp'[1] \in Kinds /\ ~dead') => {{v \in m : v < nv} : m \in ModelsOf(nv', val', cls')} = ModelsOf(nv, val, cls)]_vars
\* the literal of a cardinality constructor - fresh, cached, an argument or a constant - excludes no assignment of the
\* arguments that satisfies the cardinality constraint (in the model the caller never constrains a returned literal, so this
\* holds for every answer, not only for fresh ones)
NotExcluding ==
  [][(lastOp'[1] \in {"amo", "exo"} /\ ~dead') =>
       LET M1 == ModelsOf(nv', val', cls')
           av == {VarOf(x) : x \in SeqRange(lastOp'[2])}
           withLit == {m \cap av : m \in {mm \in M1 : LitTrue(mm, lastOp'[3])}}
       IN \A m0 \in M1 : Meaning(lastOp'[1], m0, lastOp'[2]) => (m0 \cap av) \in withLit]_vars
=============================================================================
