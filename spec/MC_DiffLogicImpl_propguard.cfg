SPECIFICATION Spec
CONSTANTS
  N = 4
  Atoms <- AtomsChain
  MaxLevel = 2
  Scale = 1
  PropGuardBug = TRUE
  SavePredBug = FALSE
INVARIANT DistExact
INVARIANT PropagationComplete
INVARIANT LemmasValid
INVARIANT ConflictIffNegCycle
INVARIANT PopRestoresDists
INVARIANT PopRestoresConstrs
INVARIANT PopRestoresPreds
INVARIANT ExplanationsValid
CHECK_DEADLOCK FALSE
