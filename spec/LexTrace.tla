------------------------------ MODULE LexTrace ------------------------------
(* Trace specification for lexing (C16) and parsing robustness (C18): every line is one     *)
(* input given to the real riddle::lexer (or riddle::parser) by harness/riddle_driver with  *)
(* what it answered. A lexer line is accepted iff the lexer returned within its budget and  *)
(* answered exactly Lexer!Lex(input): the same token kinds, or an error at the same token.  *)
(* A parser line is accepted iff the parser returned (with a tree or a reported error) and, *)
(* when the case is marked valid, accepted the program.                                     *)
EXTENDS Lexer, Json, IOUtils, TLC

VARIABLES l
Trace == ndJsonDeserialize(IOEnv.TRACE)
PROP == IF "VPROP" \in DOMAIN IOEnv THEN IOEnv.VPROP ELSE "ALL"
Chk(ps, name, cond) ==
  IF PROP = "ALL" \/ PROP \in ps
  THEN IF cond THEN TRUE ELSE PrintT(<<"CONTRACT", name, l>>) /\ FALSE
  ELSE TRUE

Front(s) == SubSeq(s, 1, Len(s) - 1)
LexOK(ev) ==
  LET exp == Lex(ev.input)
  IN /\ Chk({"C16", "C18"}, "LexerTerminates", ev.status \in {"ok", "error"})
     /\ Chk({"C16"}, "TokensAsDefined",
            Judged(ev.input) =>
              IF exp[Len(exp)] = "ERROR"
              THEN ev.status = "error" /\ SameTokens(ev.tokens, Front(exp))
              ELSE ev.status = "ok" /\ SameTokens(ev.tokens, exp))
ParseOK(ev) ==
  /\ Chk({"C16", "C18"}, "ParserTerminates", ev.status \in {"ok", "error"})
  /\ Chk({"C16"}, "ValidProgramAccepted", ("valid" \in DOMAIN ev /\ ev.valid = 1) => ev.status = "ok")

Init == l = 1
Next == l <= Len(Trace) /\ l' = l + 1 /\ (IF Trace[l].e = "lex" THEN LexOK(Trace[l]) ELSE ParseOK(Trace[l]))
Spec == Init /\ [][Next]_l
Accepted ==
  /\ PrintT(<<"MATCHED", TLCGet("stats").diameter - 1, Len(Trace)>>)
  /\ TLCGet("stats").diameter - 1 = Len(Trace)
=============================================================================
