SPECIFICATION FairSpec
CONSTANTS
  Workers = {w1, w2, w3}
  Tasks = {t1, t2, t3}
INVARIANT TypeOK
INVARIANT JoinReturnsOnlyWhenAllDone
INVARIANT ActiveCountsRunning
INVARIANT EachTaskOnce
PROPERTY JoinReturns
CHECK_DEADLOCK FALSE
