SPECIFICATION GSpec
CONSTANTS
  N = 3
  Atoms <- AtomsTie
  MaxLevel = 1
  Scale = 1
  PropGuardBug = FALSE
  EmitFrom = 0
  SavePredBug = FALSE
VIEW GView
ACTION_CONSTRAINT Emit
CHECK_DEADLOCK FALSE
