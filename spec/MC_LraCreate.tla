---------------------------- MODULE MC_LraCreate ----------------------------
EXTENDS LraCreate
B(l0, u0, l1, u1) == [lb |-> (0 :> l0) @@ (1 :> l1), ub |-> (0 :> u0) @@ (1 :> u1)]
\* no bounds; a window on x0; x0 fixed; both bounded, x1 below zero
BoxesA == { B(NInf, PInf, NInf, PInf), B(RatOf(0), RatOf(2), NInf, PInf), B(RatOf(1), RatOf(1), NInf, RatOf(2)),
            B(RatOf(0), RatOf(1), RatOf(-2), RatOf(-1)) }
DefsA == { (0 :> 1) @@ (1 :> 1), (0 :> 2) @@ (1 :> 0) }
NoDefs == {}
\* expressions that share slack variables / assertions or must NOT: the same one, a multiple, the negation, a plain variable,
\* over a derived variable, and pairs that differ only in the sign of a non-unit coefficient of the second variable
PoolB == { (0 :> 1) @@ (1 :> 1), (0 :> 2) @@ (1 :> 2), (0 :> -1) @@ (1 :> -1), (0 :> 1) @@ (1 :> 0), (0 :> 0) @@ (1 :> 1) @@ (2 :> 1), (0 :> 1) @@ (1 :> 0) @@ (2 :> -1),
           (0 :> 1) @@ (1 :> 2), (0 :> 1) @@ (1 :> -2) }
DefsB == { (0 :> 1) @@ (1 :> 1) }
CoefsA == {-1, 0, 1, 2}
CoefsB == {-1, 0, 1}
GridA == {-2, -1, 0, 1, 2, 3}
NoPool == {}
NoKinds == {}
=============================================================================
