------------------------------ MODULE ReifyGen ------------------------------
(* Test generator bound to ReifyImpl: every transition of the model's state graph is printed as one test - the shortest  *)
(* history TLC found to the source state plus the call - with the literal returned, the number of variables and the       *)
(* value of every variable the model has after every call. tools/reifyreplay.py replays them on the real sat_core         *)
(* through net_driver; an execution that deviates from the model is handed to NetworkTrace, which decides.                *)
EXTENDS MC_ReifyImpl, Json

VARIABLE ops

GInit == Init /\ ops = <<>>
GNext == Next /\ ops' = Append(ops, [call |-> lastOp', n |-> nv', v |-> val', dead |-> dead'])
GSpec == GInit /\ [][GNext]_<<vars, ops>>
GView == vars
Emit == PrintT(<<"REIFYTEST", ToJson([ops |-> ops', nu |-> NU])>>)
=============================================================================
