-------------------------- MODULE MC_DiffLogicImpl --------------------------
EXTENDS DiffLogicImpl
A(i, f, t, d) == [id |-> i, from |-> f, to |-> t, d |-> d]
\* several constraints on the same pair, a cycle through the origin, negative weights
Atoms5 == {A(1, 0, 1, 2), A(2, 1, 2, 1), A(3, 2, 0, -2), A(4, 0, 1, 0), A(5, 1, 2, -1)}
Atoms6 == Atoms5 \cup {A(6, 2, 0, -4)}
Atoms4 == {A(1, 0, 1, 2), A(2, 1, 2, 1), A(3, 2, 0, -2), A(4, 0, 1, 0)}
\* four time points: a chain 1 -> 2 -> 3 -> 0 closed by its middle or outer edges in any order, a constraint on the reverse
\* pair (0, 1) that the chain contradicts, one on the pair (1, 0) that it makes redundant
AtomsChain == {A(1, 1, 2, 1), A(2, 2, 3, 1), A(3, 3, 0, 1), A(4, 0, 1, -5), A(5, 1, 0, 3)}
\* two constraints on the same ordered pair asserted at nested levels (the tighter one deeper), a path through that pair
\* which decides a fourth constraint: after the pop the pair must be enforced (and explained) by the looser one again
AtomsUndo == {A(1, 0, 1, 2), A(2, 0, 1, 0), A(3, 1, 2, 1), A(4, 2, 0, -4)}
\* ties: the negation of a constraint tightens the opposite distance by exactly the smallest step (1 / the infinitesimal)
\* when that distance already equals the bound, and a constraint that is decided by a distance equal to its bound
AtomsTie == {A(1, 0, 1, 2), A(2, 1, 0, -2), A(3, 1, 2, 1), A(4, 2, 1, -1), A(5, 0, 2, 3)}
=============================================================================
