-------------------------- MODULE MC_DiffLogicImpl --------------------------
EXTENDS DiffLogicImpl
A(i, f, t, d) == [id |-> i, from |-> f, to |-> t, d |-> d]
\* several constraints on the same pair, a cycle through the origin, negative weights
Atoms5 == {A(1, 0, 1, 2), A(2, 1, 2, 1), A(3, 2, 0, -2), A(4, 0, 1, 0), A(5, 1, 2, -1)}
Atoms4 == {A(1, 0, 1, 2), A(2, 1, 2, 1), A(3, 2, 0, -2), A(4, 0, 1, 0)}
=============================================================================
