------------------------------- MODULE Rat -------------------------------
(* Exact rationals extended with +inf / -inf, as pairs <<num, den>>.                         *)
(* This is the reference semantics of smt::rational (C15) and the arithmetic library of     *)
(* every other module. Canonical form: den > 0 and gcd(|num|, den) = 1, or den = 0 and      *)
(* num \in {-1, 1} (the two infinities). Comparison and arithmetic never divide: they       *)
(* cross-multiply.                                                                          *)
EXTENDS Integers, Sequences

Abs(x) == IF x < 0 THEN -x ELSE x
Sgn(x) == IF x < 0 THEN -1 ELSE IF x = 0 THEN 0 ELSE 1

RECURSIVE GCDp(_, _)
GCDp(a, b) == IF b = 0 THEN a ELSE GCDp(b, a % b)      \* a, b >= 0
GCD(a, b) == GCDp(Abs(a), Abs(b))

Zero == <<0, 1>>
One == <<1, 1>>
PInf == <<1, 0>>
NInf == <<-1, 0>>
RatOf(i) == <<i, 1>>

Num(q) == q[1]
Den(q) == q[2]

\* the canonical rational n/d; d = 0 gives the infinity with the sign of n (n = 0, d = 0 is undefined)
Norm(n, d) ==
  IF d = 0 THEN <<Sgn(n), 0>>
  ELSE LET g == GCD(n, d)
           s == IF d < 0 THEN -1 ELSE 1
       IN <<(s * n) \div g, (s * d) \div g>>

IsCanonical(q) ==
  /\ Len(q) = 2
  /\ \/ q[2] = 0 /\ q[1] \in {-1, 1}
     \/ q[2] > 0 /\ GCD(q[1], q[2]) = 1

IsInf(q) == q[2] = 0
IsPInf(q) == q[2] = 0 /\ q[1] > 0
IsNInf(q) == q[2] = 0 /\ q[1] < 0
IsInt(q) == q[2] = 1
IsZero(q) == q[1] = 0
IsPos(q) == q[1] > 0
IsNeg(q) == q[1] < 0

Neg(q) == <<-q[1], q[2]>>

\* total order: -inf < every finite value < +inf
Lt(a, b) == IF a[2] = b[2] THEN a[1] < b[1] ELSE a[1] * b[2] < b[1] * a[2]     \* equal denominators: no product needed
Eq(a, b) == a = b                         \* canonical forms are unique
Le(a, b) == Lt(a, b) \/ a = b
Gt(a, b) == Lt(b, a)
Ge(a, b) == Le(b, a)
Ne(a, b) == a # b

RMin(a, b) == IF Le(a, b) THEN a ELSE b
RMax(a, b) == IF Le(a, b) THEN b ELSE a

\* where the operations are defined
AddDefined(a, b) == ~(IsInf(a) /\ IsInf(b) /\ a # b)              \* inf + -inf undefined
MulDefined(a, b) == ~((IsZero(a) /\ IsInf(b)) \/ (IsInf(a) /\ IsZero(b)))  \* 0 * inf undefined

Add(a, b) ==
  IF IsInf(a) THEN a
  ELSE IF IsInf(b) THEN b
  ELSE IF a[2] = b[2] THEN Norm(a[1] + b[1], a[2])
  ELSE Norm(a[1] * b[2] + b[1] * a[2], a[2] * b[2])

Sub(a, b) == Add(a, Neg(b))

Mul(a, b) ==
  IF IsInf(a) \/ IsInf(b) THEN <<Sgn(a[1]) * Sgn(b[1]), 0>>
  ELSE Norm(a[1] * b[1], a[2] * b[2])

\* the reciprocal: 1/0 is read as +inf, 1/(+-inf) as 0 (as the implementation does)
Inv(q) == IF q[1] >= 0 THEN <<q[2], q[1]>> ELSE <<-q[2], -q[1]>>
DivDefined(a, b) == ~IsZero(b) /\ MulDefined(a, Inv(b))
Div(a, b) == Mul(a, Inv(b))

\* sum of a sequence of rationals
RECURSIVE SumSeq(_)
SumSeq(s) == IF s = <<>> THEN Zero ELSE Add(Head(s), SumSeq(Tail(s)))
=============================================================================
