SPECIFICATION Spec
CONSTANTS
  NV = 4
  Pool <- PoolA
  MaxLevel = 2
  MaxLearnt = 2
  CheckPool <- NoChecks
  LoseWatchBug = FALSE
CONSTRAINT Bounded
INVARIANT WatchInv
INVARIANT PropagationComplete
INVARIANT AssignedEntailed
INVARIANT DatabaseEntailed
INVARIANT DeadOnlyIfUnsat
INVARIANT CompleteIsModel
INVARIANT TrailInv
INVARIANT ReasonHeadInv
CHECK_DEADLOCK FALSE
