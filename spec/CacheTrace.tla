----------------------------- MODULE CacheTrace -----------------------------
(* C13, the expression cache of the reified constructors (sat_core::exprs): a trace of requests new_eq / new_conj /    *)
(* new_disj / new_at_most_one / new_exct_one over plain, unconstrained variables (harness/net_driver, profile "cache": *)
(* thousands of requests on one network, so that variable numbers have several digits). Abstractly the cache is a      *)
(* function from formulas to literals; because the arguments are free variables, what a literal stands for is decided  *)
(* by the truth table over the variables of the formulas involved:                                                      *)
(*   - a literal answered for two requests must stand for equivalent formulas (a cache key shared by two different     *)
(*     formulas breaks this);                                                                                           *)
(*   - an answer that is a constant or one of the plain literals must be equivalent to the formula requested;          *)
(*   - otherwise the answer is a literal of a variable created for it.                                                  *)
(* Every definition made inside a call (exactly-one building its at-most-one and conjunctions) is a request too.       *)
EXTENDS Integers, Sequences, FiniteSets, Json, IOUtils, TLC

Trace == ndJsonDeserialize(IOEnv.TRACE)
VARIABLES l, plain, defs      \* plain: number of plain variables (1..plain); defs: set of <<kind, args, ret>>
vars == <<l, plain, defs>>
Chk(name, cond) == IF cond THEN TRUE ELSE PrintT(<<"CONTRACT", name, l>>) /\ FALSE

VarOf(i) == i \div 2
Pos(i) == i % 2 = 1
\* literal i under assignment a (variable 0 is the constant false)
LV(a, i) == IF VarOf(i) = 0 THEN ~Pos(i) ELSE a[VarOf(i)] = Pos(i)
Count(a, args) == Cardinality({k \in DOMAIN args : LV(a, args[k])})   \* every occurrence of a repeated argument counts
Sem(kind, args, a) ==
  CASE kind = "conj" -> \A k \in DOMAIN args : LV(a, args[k])
    [] kind = "disj" -> \E k \in DOMAIN args : LV(a, args[k])
    [] kind = "eq" -> LV(a, args[1]) = LV(a, args[2])
    [] kind = "amo" -> Count(a, args) <= 1
    [] kind = "exo" -> Count(a, args) = 1
VarsOf(args) == {VarOf(args[k]) : k \in DOMAIN args} \ {0}
Equivalent(k1, a1, k2, a2) ==
  (k1 = k2 /\ {a1[i] : i \in DOMAIN a1} = {a2[i] : i \in DOMAIN a2} /\ k1 # "eq")
  \/ \A a \in [VarsOf(a1) \cup VarsOf(a2) -> BOOLEAN] : Sem(k1, a1, a) = Sem(k2, a2, a)
EquivalentToLit(k1, a1, r) ==
  \A a \in [VarsOf(a1) \cup ({VarOf(r)} \ {0}) -> BOOLEAN] : Sem(k1, a1, a) = LV(a, r)

\* one definition (from the hooks of a call)
DefOK(S, d) ==
  LET plainArgs == \A k \in DOMAIN d.args : VarOf(d.args[k]) <= plain
  IN IF ~plainArgs THEN TRUE            \* nested definitions over defined literals: out of the scope of this check
     ELSE IF VarOf(d.ret) <= plain
          THEN Chk("TrivialAnswerEquivalent", EquivalentToLit(d.kind, d.args, d.ret))
          ELSE Chk("SharedLiteralEquivalent", \A e \in {x \in S : x[3] = d.ret \/ x[3] = (IF Pos(d.ret) THEN d.ret - 1 ELSE d.ret + 1)} :
                     IF e[3] = d.ret THEN Equivalent(e[1], e[2], d.kind, d.args)
                     ELSE \A a \in [VarsOf(e[2]) \cup VarsOf(d.args) -> BOOLEAN] : Sem(e[1], e[2], a) # Sem(d.kind, d.args, a))
RECURSIVE Fold(_, _, _)
Fold(S, hs, i) ==
  IF i > Len(hs) THEN <<TRUE, S>>
  ELSE IF hs[i].k # "def" THEN Fold(S, hs, i + 1)
  ELSE LET d == hs[i]
       IN IF DefOK(S, d) THEN Fold(IF \A k \in DOMAIN d.args : VarOf(d.args[k]) <= plain THEN S \cup {<<d.kind, d.args, d.ret>>} ELSE S, hs, i + 1)
          ELSE <<FALSE, S>>

Init == l = 1 /\ plain = 0 /\ defs = {}
Next ==
  /\ l <= Len(Trace)
  /\ l' = l + 1
  /\ LET ev == Trace[l]
     IN CASE ev.e = "reset" -> plain' = 0 /\ defs' = {}
          [] ev.e = "new_var" -> plain' = ev.ret /\ defs' = defs
          [] ev.e \in {"new_eq", "new_conj", "new_disj", "new_amo", "new_exo"} ->
               LET r == Fold(defs, ev.hooks, 1) IN r[1] /\ defs' = r[2] /\ plain' = plain
          [] ev.e \in {"abort", "garbage"} -> Chk("NoAbort", FALSE) /\ UNCHANGED <<plain, defs>>
          [] OTHER -> UNCHANGED <<plain, defs>>
Spec == Init /\ [][Next]_vars
Accepted ==
  /\ PrintT(<<"MATCHED", TLCGet("stats").diameter - 1, Len(Trace)>>)
  /\ TLCGet("stats").diameter - 1 = Len(Trace)
=============================================================================
