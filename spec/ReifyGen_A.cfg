SPECIFICATION GSpec
CONSTANTS
  NU = 3
  MaxCalls = 1
  MaxUnits = 3
  MaxLen = 3
  ArgPool <- NoPool
  Kinds = {"eq", "conj", "disj", "amo", "exo"}
  NestRet = FALSE
  WithConsts = TRUE
  UnitsAfter = FALSE
CHECK_DEADLOCK FALSE
VIEW GView
ACTION_CONSTRAINT Emit
