------------------------------ MODULE LraImpl ------------------------------
(* Implementation-shaped model of smt::lra_theory (C08, C09): the tableau (basic variable -> row over the non-basic  *)
(* ones), the values, the bounds with the literal that is the reason of each, the undo layers (first write wins),     *)
(* and the truth values of the assertion literals. Transcribed from the code: propagate(lit) -> assert_lower /        *)
(* assert_upper (conflict with the opposite bound, layer save, update of a non-basic variable and of the rows that    *)
(* watch it, unate propagation of the assertions on the variable, bound propagation through the rows that contain     *)
(* it, both recording lemmas that enqueue further literals), check() (Bland's rule: first violated basic variable,    *)
(* first suitable non-basic one, pivot_and_update, pivot; conflict explanation from the row), push, pop.              *)
(* One action = the sat core handing one assertion literal to the theory and running its queue and check() to the     *)
(* end, at the current level; push / pop as the sat core calls them. TLC checks over all histories on a fixed set of   *)
(* assertions: rows stay equivalent to the slack definitions, values satisfy the rows and (after a successful check)  *)
(* lie within the bounds, every bound is the tightest one asserted and its reason is the literal that asserted it,    *)
(* every lemma and every conflict explanation follows from the meaning of the literals (by Fourier-Motzkin on the     *)
(* reals), a conflict is signalled only for infeasible sets, pop restores bounds and reasons exactly.                 *)
EXTENDS Integers, Sequences, FiniteSets, TLC, InfRat

CONSTANTS NX,        \* plain variables 0..NX-1
          Rows,      \* Rows[k]: the definition of slack variable NX+k-1 as a function plain variable -> integer coefficient
          Atoms,     \* Atoms[i] = [x |-> variable, o |-> "leq" | "geq", v |-> bound (an InfRat)]: literal i
          MaxLevel,
          WithPairs, \* TRUE: two literals can also be assigned in one batch (a decision implying both through clauses)
          ReasonBug  \* TRUE: assert_upper saves the reason of the LOWER bound in the undo layer (a seeded mistake)

NR == Len(Rows)
V == 0..(NX + NR - 1)
NA == Len(Atoms)
PInfIR == <<PInf, Zero>>
NInfIR == <<NInf, Zero>>
Eps == <<Zero, One>>
LitAbs(p) == IF p < 0 THEN -p ELSE p

VARIABLES tab,     \* basic variable -> row: function (subset of V) -> Rat, no zero coefficients
          vals,    \* V -> InfRat
          lb, ub,  \* V -> [v |-> InfRat, r |-> literal]   (r = 0: the constant true literal)
          layers,  \* sequence of partial functions <<variable, "l" | "u">> -> bound record
          aval,    \* 1..NA -> "T" | "F" | "U"
          lemdb,   \* the set of lemma clauses recorded so far: they stay in the sat core's database across pops
          hist,    \* snapshots at the pushes (ghost: aval for pop, the rest for the PopRestores check)
          lastOp
vars == <<tab, vals, lb, ub, layers, aval, lemdb, hist, lastOp>>

Basic(S) == DOMAIN S.tab
LitVal(S, p) == IF p = 0 THEN "T" ELSE IF S.aval[LitAbs(p)] = "U" THEN "U" ELSE IF (S.aval[LitAbs(p)] = "T") = (p > 0) THEN "T" ELSE "F"
RowsWith(S, x) == {b \in Basic(S) : x \in DOMAIN S.tab[b]}
\* ascending enumeration of a finite set of integers
RECURSIVE Asc(_)
Asc(Sx) == IF Sx = {} THEN <<>> ELSE LET m == CHOOSE a \in Sx : \A b \in Sx : a <= b IN <<m>> \o Asc(Sx \ {m})

\* ---- the undo layer ---------------------------------------------------------------------------------------------------
Save(f, k, v) == IF k \in DOMAIN f THEN f ELSE [z \in (DOMAIN f) \cup {k} |-> IF z = k THEN v ELSE f[z]]
SaveBound(S, x, which, saved) ==
  IF ~S.on THEN S ELSE [S EXCEPT !.top = Save(S.top, <<x, which>>, saved)]

\* theory::record -> sat_core::record: the first literal is enqueued with the clause as its reason
Rec(S, cls) ==
  LET b == cls[1]
  IN [S EXCEPT !.aval[LitAbs(b)] = IF b > 0 THEN "T" ELSE "F", !.q = Append(@, b), !.lem = @ \cup {{cls[i] : i \in DOMAIN cls}},
               !.db = @ \cup {{cls[i] : i \in DOMAIN cls} \ {0}}]

\* ---- assertion::propagate_lb / propagate_ub (unate propagation on the variable whose bound changed) -------------
AtomPropLb(S, i, x) ==
  LET a == Atoms[i]
      l == S.lb[x]
  IN IF a.o = "leq"
     THEN IF S.aval[i] = "T" /\ IRGt(l.v, a.v) THEN [ok |-> FALSE, S |-> [S EXCEPT !.cnfl = <<-i, -l.r>>]]
          ELSE IF S.aval[i] = "U" /\ IRGt(l.v, a.v) THEN [ok |-> TRUE, S |-> Rec(S, <<-i, -l.r>>)]
          ELSE [ok |-> TRUE, S |-> S]
     ELSE IF S.aval[i] = "F" /\ IRGe(l.v, a.v) THEN [ok |-> FALSE, S |-> [S EXCEPT !.cnfl = <<i, -l.r>>]]
          ELSE IF S.aval[i] = "U" /\ IRGe(l.v, a.v) THEN [ok |-> TRUE, S |-> Rec(S, <<i, -l.r>>)]
          ELSE [ok |-> TRUE, S |-> S]
AtomPropUb(S, i, x) ==
  LET a == Atoms[i]
      u == S.ub[x]
  IN IF a.o = "leq"
     THEN IF S.aval[i] = "F" /\ IRLe(u.v, a.v) THEN [ok |-> FALSE, S |-> [S EXCEPT !.cnfl = <<i, -u.r>>]]
          ELSE IF S.aval[i] = "U" /\ IRLe(u.v, a.v) THEN [ok |-> TRUE, S |-> Rec(S, <<i, -u.r>>)]
          ELSE [ok |-> TRUE, S |-> S]
     ELSE IF S.aval[i] = "T" /\ IRLt(u.v, a.v) THEN [ok |-> FALSE, S |-> [S EXCEPT !.cnfl = <<-i, -u.r>>]]
          ELSE IF S.aval[i] = "U" /\ IRLt(u.v, a.v) THEN [ok |-> TRUE, S |-> Rec(S, <<-i, -u.r>>)]
          ELSE [ok |-> TRUE, S |-> S]
AtomsOn(x) == {i \in 1..NA : Atoms[i].x = x}

\* ---- row::propagate_lb / propagate_ub: the bound the row implies for its basic variable, with its reasons ----------
\* lower = TRUE: the lower bound of the row expression; returns [fin, b, why] (why: sequence of negated reasons)
RECURSIVE RowBound(_, _, _, _, _)
RowBound(S, row, vs, lower, acc) ==
  IF vs = <<>> THEN acc
  ELSE LET v == Head(vs)
           c == row[v]
           useLb == (IsPos(c) /\ lower) \/ (IsNeg(c) /\ ~lower)
           bd == IF useLb THEN S.lb[v] ELSE S.ub[v]
       IN IF IRIsInf(bd.v) THEN [fin |-> FALSE, b |-> IRZero, why |-> <<>>]
          ELSE RowBound(S, row, Tail(vs), lower, [fin |-> TRUE, b |-> IRAdd(acc.b, IRMul(bd.v, c)), why |-> Append(acc.why, -bd.r)])
\* the assertions on the basic variable of the row against an implied lower bound
RECURSIVE ImplLb(_, _, _, _, _)
ImplLb(S, as, bnd, why, x) ==
  IF as = <<>> THEN [ok |-> TRUE, S |-> S]
  ELSE LET i == Head(as)
           a == Atoms[i]
       IN IF a.o = "leq"
          THEN IF S.aval[i] = "T" /\ IRGt(bnd, a.v) THEN [ok |-> FALSE, S |-> [S EXCEPT !.cnfl = <<-i>> \o why]]
               ELSE IF S.aval[i] = "U" /\ IRGt(bnd, a.v) THEN ImplLb(Rec(S, <<-i>> \o why), Tail(as), bnd, why, x)
               ELSE ImplLb(S, Tail(as), bnd, why, x)
          ELSE IF S.aval[i] = "F" /\ IRGe(bnd, a.v) THEN [ok |-> FALSE, S |-> [S EXCEPT !.cnfl = <<i>> \o why]]
               ELSE IF S.aval[i] = "U" /\ IRGe(bnd, a.v) THEN ImplLb(Rec(S, <<i>> \o why), Tail(as), bnd, why, x)
               ELSE ImplLb(S, Tail(as), bnd, why, x)
RECURSIVE ImplUb(_, _, _, _, _)
ImplUb(S, as, bnd, why, x) ==
  IF as = <<>> THEN [ok |-> TRUE, S |-> S]
  ELSE LET i == Head(as)
           a == Atoms[i]
       IN IF a.o = "leq"
          THEN IF S.aval[i] = "F" /\ IRLe(bnd, a.v) THEN [ok |-> FALSE, S |-> [S EXCEPT !.cnfl = <<i>> \o why]]
               ELSE IF S.aval[i] = "U" /\ IRLe(bnd, a.v) THEN ImplUb(Rec(S, <<i>> \o why), Tail(as), bnd, why, x)
               ELSE ImplUb(S, Tail(as), bnd, why, x)
          ELSE IF S.aval[i] = "T" /\ IRLt(bnd, a.v) THEN [ok |-> FALSE, S |-> [S EXCEPT !.cnfl = <<-i>> \o why]]
               ELSE IF S.aval[i] = "U" /\ IRLt(bnd, a.v) THEN ImplUb(Rec(S, <<-i>> \o why), Tail(as), bnd, why, x)
               ELSE ImplUb(S, Tail(as), bnd, why, x)
\* row b, after the LOWER bound of variable v (one of its non-basic variables) changed
RowPropLb(S, b, v) ==
  LET row == S.tab[b]
      lower == IsPos(row[v])
      r == RowBound(S, row, Asc(DOMAIN row), lower, [fin |-> TRUE, b |-> IRZero, why |-> <<>>])
  IN IF ~r.fin THEN [ok |-> TRUE, S |-> S]
     ELSE IF lower THEN (IF IRGe(r.b, S.lb[b].v) THEN ImplLb(S, Asc(AtomsOn(b)), r.b, r.why, b) ELSE [ok |-> TRUE, S |-> S])
          ELSE (IF IRLe(r.b, S.ub[b].v) THEN ImplUb(S, Asc(AtomsOn(b)), r.b, r.why, b) ELSE [ok |-> TRUE, S |-> S])
\* row b, after the UPPER bound of v changed
RowPropUb(S, b, v) ==
  LET row == S.tab[b]
      lower == IsNeg(row[v])
      r == RowBound(S, row, Asc(DOMAIN row), lower, [fin |-> TRUE, b |-> IRZero, why |-> <<>>])
  IN IF ~r.fin THEN [ok |-> TRUE, S |-> S]
     ELSE IF lower THEN (IF IRGe(r.b, S.lb[b].v) THEN ImplLb(S, Asc(AtomsOn(b)), r.b, r.why, b) ELSE [ok |-> TRUE, S |-> S])
          ELSE (IF IRLe(r.b, S.ub[b].v) THEN ImplUb(S, Asc(AtomsOn(b)), r.b, r.why, b) ELSE [ok |-> TRUE, S |-> S])

\* generic "for each element, stop at the first failure"
RECURSIVE ForAtoms(_, _, _, _)
ForAtoms(S, as, x, lower) ==
  IF as = <<>> THEN [ok |-> TRUE, S |-> S]
  ELSE LET r == IF lower THEN AtomPropLb(S, Head(as), x) ELSE AtomPropUb(S, Head(as), x)
       IN IF r.ok THEN ForAtoms(r.S, Tail(as), x, lower) ELSE r
RECURSIVE ForRows(_, _, _, _)
ForRows(S, bs, x, lower) ==
  IF bs = <<>> THEN [ok |-> TRUE, S |-> S]
  ELSE LET r == IF lower THEN RowPropLb(S, Head(bs), x) ELSE RowPropUb(S, Head(bs), x)
       IN IF r.ok THEN ForRows(r.S, Tail(bs), x, lower) ELSE r

\* ---- lra_theory::update ------------------------------------------------------------------------------------------------
Update(S, x, v) ==
  LET d == IRSub(v, S.vals[x])
  IN [S EXCEPT !.vals = [z \in V |-> IF z = x THEN v
                                    ELSE IF z \in RowsWith(S, x) THEN IRAdd(S.vals[z], IRMul(d, S.tab[z][x]))
                                    ELSE S.vals[z]]]

\* ---- assert_lower / assert_upper ---------------------------------------------------------------------------------------
AssertLower(S, x, val, p) ==
  IF IRLe(val, S.lb[x].v) THEN [ok |-> TRUE, S |-> S]
  ELSE IF IRGt(val, S.ub[x].v) THEN [ok |-> FALSE, S |-> [S EXCEPT !.cnfl = <<-p, -S.ub[x].r>>]]
  ELSE LET S1 == [SaveBound(S, x, "l", S.lb[x]) EXCEPT !.lb[x] = [v |-> val, r |-> p]]
           S2 == IF IRLt(S1.vals[x], val) /\ x \notin Basic(S1) THEN Update(S1, x, val) ELSE S1
           r1 == ForAtoms(S2, Asc(AtomsOn(x)), x, TRUE)
       IN IF ~r1.ok THEN r1 ELSE ForRows(r1.S, Asc(RowsWith(r1.S, x)), x, TRUE)
AssertUpper(S, x, val, p) ==
  IF IRGe(val, S.ub[x].v) THEN [ok |-> TRUE, S |-> S]
  ELSE IF IRLt(val, S.lb[x].v) THEN [ok |-> FALSE, S |-> [S EXCEPT !.cnfl = <<-p, -S.lb[x].r>>]]
  ELSE LET saved == IF ReasonBug THEN [v |-> S.ub[x].v, r |-> S.lb[x].r] ELSE S.ub[x]
           S1 == [SaveBound(S, x, "u", saved) EXCEPT !.ub[x] = [v |-> val, r |-> p]]
           S2 == IF IRGt(S1.vals[x], val) /\ x \notin Basic(S1) THEN Update(S1, x, val) ELSE S1
           r1 == ForAtoms(S2, Asc(AtomsOn(x)), x, FALSE)
       IN IF ~r1.ok THEN r1 ELSE ForRows(r1.S, Asc(RowsWith(r1.S, x)), x, FALSE)

\* lra_theory::propagate(p): p is a literal of an assertion that has just become true
TheoryPropagate(S, p) ==
  LET i == LitAbs(p)
      a == Atoms[i]
  IN IF p > 0 THEN (IF a.o = "leq" THEN AssertUpper(S, a.x, a.v, p) ELSE AssertLower(S, a.x, a.v, p))
     ELSE (IF a.o = "leq" THEN AssertLower(S, a.x, IRAdd(a.v, Eps), p) ELSE AssertUpper(S, a.x, IRSub(a.v, Eps), p))

\* ---- pivot_and_update / pivot -------------------------------------------------------------------------------------------
Pivot(S, xi, xj) ==
  LET ex == S.tab[xi]
      cf == ex[xj]
      \* x_j = (x_i - sum of the other terms) / cf
      nr == [z \in ((DOMAIN ex) \ {xj}) \cup {xi} |-> IF z = xi THEN Div(One, cf) ELSE Div(ex[z], Neg(cf))]
      Subst(row) ==
        LET cc == row[xj]
            dom == ((DOMAIN row) \ {xj}) \cup DOMAIN nr
            full == [z \in dom |-> Add(IF z \in DOMAIN row /\ z # xj THEN row[z] ELSE Zero, IF z \in DOMAIN nr THEN Mul(nr[z], cc) ELSE Zero)]
            keep == {z \in dom : ~IsZero(full[z])}
        IN [z \in keep |-> full[z]]
      others == (Basic(S) \ {xi})
  IN [S EXCEPT !.tab = [b \in others \cup {xj} |-> IF b = xj THEN nr ELSE IF xj \in DOMAIN S.tab[b] THEN Subst(S.tab[b]) ELSE S.tab[b]]]
PivotAndUpdate(S, xi, xj, v) ==
  LET theta == IRDiv(IRSub(v, S.vals[xi]), S.tab[xi][xj])
      S1 == [S EXCEPT !.vals = [z \in V |-> IF z = xi THEN v
                                           ELSE IF z = xj THEN IRAdd(S.vals[xj], theta)
                                           ELSE IF z \in RowsWith(S, xj) THEN IRAdd(S.vals[z], IRMul(theta, S.tab[z][xj]))
                                           ELSE S.vals[z]]]
  IN Pivot(S1, xi, xj)

\* ---- check(): Bland's rule ----------------------------------------------------------------------------------------------
RECURSIVE Check(_, _)
Check(S, fuel) ==
  LET bad == {b \in Basic(S) : IRLt(S.vals[b], S.lb[b].v) \/ IRGt(S.vals[b], S.ub[b].v)}
  IN IF bad = {} THEN [ok |-> TRUE, S |-> S]
     ELSE IF fuel = 0 THEN [ok |-> TRUE, S |-> [S EXCEPT !.cycling = TRUE]]
     ELSE LET xi == CHOOSE b \in bad : \A c \in bad : b <= c
              row == S.tab[xi]
          IN IF IRLt(S.vals[xi], S.lb[xi].v)
             THEN LET cand == {z \in DOMAIN row : (IsPos(row[z]) /\ IRLt(S.vals[z], S.ub[z].v)) \/ (IsNeg(row[z]) /\ IRGt(S.vals[z], S.lb[z].v))}
                  IN IF cand # {} THEN Check(PivotAndUpdate(S, xi, CHOOSE z \in cand : \A y \in cand : z <= y, S.lb[xi].v), fuel - 1)
                     ELSE [ok |-> FALSE,
                           S |-> [S EXCEPT !.cnfl = [k \in 1..Cardinality(DOMAIN row) |->
                                                       LET z == Asc(DOMAIN row)[k] IN IF IsPos(row[z]) THEN -S.ub[z].r ELSE -S.lb[z].r]
                                                    \o <<-S.lb[xi].r>>]]
             ELSE LET cand == {z \in DOMAIN row : (IsNeg(row[z]) /\ IRLt(S.vals[z], S.ub[z].v)) \/ (IsPos(row[z]) /\ IRGt(S.vals[z], S.lb[z].v))}
                  IN IF cand # {} THEN Check(PivotAndUpdate(S, xi, CHOOSE z \in cand : \A y \in cand : z <= y, S.ub[xi].v), fuel - 1)
                     ELSE [ok |-> FALSE,
                           S |-> [S EXCEPT !.cnfl = [k \in 1..Cardinality(DOMAIN row) |->
                                                       LET z == Asc(DOMAIN row)[k] IN IF IsPos(row[z]) THEN -S.lb[z].r ELSE -S.ub[z].r]
                                                    \o <<-S.ub[xi].r>>]]

\* ---- the sat core's loop for one literal: queue of theory propagations, then check() ---------------------------------
\* the sat core's own unit propagation over the recorded lemma clauses, for the literal p that has just become true
\* (the database is kept as a set: the order in which the watch lists visit the clauses is not modelled)
RECURSIVE EnqueueAll(_, _)
EnqueueAll(S, bs) ==
  IF bs = <<>> THEN S
  ELSE LET b == Head(bs)
       IN EnqueueAll(IF LitVal(S, b) = "U" THEN [S EXCEPT !.aval[LitAbs(b)] = IF b > 0 THEN "T" ELSE "F", !.q = Append(@, b)] ELSE S, Tail(bs))
SatPhase(S, p) ==
  LET touched == {c \in S.db : -p \in c /\ ~\E l \in c : LitVal(S, l) = "T"}
      falsified == {c \in touched : \A l \in c : LitVal(S, l) = "F"}
      units == {l \in UNION touched : LitVal(S, l) = "U" /\ \E c \in touched : l \in c /\ \A m \in c \ {l} : LitVal(S, m) = "F"}
  IN IF falsified # {} THEN [ok |-> FALSE, S |-> [S EXCEPT !.cnfl = Asc(CHOOSE c \in falsified : TRUE)]]
     ELSE IF \E l \in units : -l \in units THEN [ok |-> FALSE, S |-> [S EXCEPT !.cnfl = <<>>]]
     ELSE [ok |-> TRUE, S |-> EnqueueAll(S, Asc(units))]
RECURSIVE RunQueue(_)
RunQueue(S) ==
  IF S.q = <<>> THEN Check(S, 40)
  ELSE LET p == Head(S.q)
           r0 == SatPhase([S EXCEPT !.q = Tail(@)], p)
       IN IF ~r0.ok THEN r0
          ELSE LET r == TheoryPropagate(r0.S, p)
               IN IF r.ok THEN RunQueue(r.S) ELSE r

Cur == [tab |-> tab, vals |-> vals, lb |-> lb, ub |-> ub, aval |-> aval, q |-> <<>>, lem |-> {}, db |-> lemdb, cnfl |-> <<>>, cycling |-> FALSE,
        on |-> layers # <<>>, top |-> IF layers = <<>> THEN << >> ELSE layers[Len(layers)]]

InitTab == [k \in NX..(NX + NR - 1) |-> [z \in {y \in DOMAIN Rows[k - NX + 1] : Rows[k - NX + 1][y] # 0} |-> RatOf(Rows[k - NX + 1][z])]]
Init ==
  /\ tab = InitTab /\ vals = [z \in V |-> IRZero]
  /\ lb = [z \in V |-> [v |-> NInfIR, r |-> 0]] /\ ub = [z \in V |-> [v |-> PInfIR, r |-> 0]]
  /\ layers = <<>> /\ aval = [i \in 1..NA |-> "U"] /\ hist = <<>> /\ lemdb = {} /\ lastOp = <<"init">>

Alive == lastOp[1] # "conflict"
\* the sat core assigns literal p (atom i true / false) at the current level and runs its propagation to the end
\* the sat core assigns the literals ps (one decision, or one decision that implies several literals through clauses: they
\* are all assigned before the theory sees the first of them) at the current level and runs its propagation to the end
AssertBatch(ps) ==
  /\ Alive /\ \A k \in DOMAIN ps : aval[LitAbs(ps[k])] = "U"
  /\ \A k, m \in DOMAIN ps : k # m => LitAbs(ps[k]) # LitAbs(ps[m])
  /\ LET S0 == [Cur EXCEPT !.aval = [i \in 1..NA |-> IF \E k \in DOMAIN ps : LitAbs(ps[k]) = i
                                                    THEN (IF (CHOOSE k \in DOMAIN ps : LitAbs(ps[k]) = i) \in {k \in DOMAIN ps : ps[k] > 0} THEN "T" ELSE "F")
                                                    ELSE aval[i]],
                          !.q = ps]
         r == RunQueue(S0)
     IN IF r.ok
        THEN /\ tab' = r.S.tab /\ vals' = r.S.vals /\ lb' = r.S.lb /\ ub' = r.S.ub /\ aval' = r.S.aval
             /\ layers' = IF layers = <<>> THEN layers ELSE [layers EXCEPT ![Len(layers)] = r.S.top]
             /\ lastOp' = <<"assert", ps, r.S.lem, r.S.cycling>>
             /\ hist' = hist /\ lemdb' = r.S.db
        ELSE \* a conflict: the sat core analyses it and backjumps; the model stops here and keeps the explanation
             /\ lastOp' = <<"conflict", ps, r.S.lem, {r.S.cnfl[k] : k \in DOMAIN r.S.cnfl}, r.S.aval>>
             /\ lemdb' = r.S.db
             /\ UNCHANGED <<tab, vals, lb, ub, layers, aval, hist>>
AssertLit(i, tv) == AssertBatch(<<IF tv = "T" THEN i ELSE -i>>)
AssertPair(i, tvi, j, tvj) == i # j /\ AssertBatch(<<IF tvi = "T" THEN i ELSE -i, IF tvj = "T" THEN j ELSE -j>>)
Push ==
  /\ Alive /\ Len(layers) < MaxLevel
  /\ layers' = Append(layers, << >>)
  /\ hist' = Append(hist, [lb |-> lb, ub |-> ub, aval |-> aval])
  /\ lastOp' = <<"push">>
  /\ UNCHANGED <<tab, vals, lb, ub, aval, lemdb>>
Pop ==
  /\ Alive /\ layers # <<>>
  /\ LET L == layers[Len(layers)]
     IN /\ lb' = [z \in V |-> IF <<z, "l">> \in DOMAIN L THEN L[<<z, "l">>] ELSE lb[z]]
        /\ ub' = [z \in V |-> IF <<z, "u">> \in DOMAIN L THEN L[<<z, "u">>] ELSE ub[z]]
  /\ aval' = hist[Len(hist)].aval
  /\ layers' = SubSeq(layers, 1, Len(layers) - 1)
  /\ hist' = SubSeq(hist, 1, Len(hist) - 1)
  /\ lastOp' = <<"pop", hist[Len(hist)]>>
  /\ UNCHANGED <<tab, vals, lemdb>>

\* exhaustive exploration is done per state without the lemma database (one representative database per such state): the
\* databases reachable for the same bounds / values / truth values are too many to enumerate; random simulation covers them
ViewNoLemmas == <<tab, vals, lb, ub, layers, aval, hist, lastOp>>

Next == Push \/ Pop \/ (\E i \in 1..NA, tv \in {"T", "F"} : AssertLit(i, tv))
        \/ (WithPairs /\ \E i, j \in 1..NA, tvi, tvj \in {"T", "F"} : AssertPair(i, tvi, j, tvj))
Spec == Init /\ [][Next]_vars

\* ---- properties --------------------------------------------------------------------------------------------------------
\* the meaning of literal p as a constraint <<row over the plain variables, "le" | "lt" | "ge" | "gt", bound>>
PlainRow(x) == IF x < NX THEN [z \in {x} |-> 1] ELSE [z \in {y \in DOMAIN Rows[x - NX + 1] : Rows[x - NX + 1][y] # 0} |-> Rows[x - NX + 1][z]]
\* evaluation of a row of the tableau in terms of the plain variables must equal the definition of its basic variable
ExpandRow(row) ==      \* plain variable -> Rat
  [z \in 0..(NX - 1) |-> LET terms == [k \in 1..Cardinality(DOMAIN row) |->
                                         LET y == Asc(DOMAIN row)[k]
                                         IN IF z \in DOMAIN PlainRow(y) THEN Mul(row[y], RatOf(PlainRow(y)[z])) ELSE Zero]
                         IN SumSeq(terms)]
DefOf(x) == [z \in 0..(NX - 1) |-> IF z \in DOMAIN PlainRow(x) THEN RatOf(PlainRow(x)[z]) ELSE Zero]
RowsEquivalent == \A b \in DOMAIN tab : ExpandRow(tab[b]) = DefOf(b)
BasicDisjoint == \A b \in DOMAIN tab : \A z \in DOMAIN tab[b] : z \notin DOMAIN tab /\ ~IsZero(tab[b][z])
\* the values satisfy the rows; after a successful check they lie within the bounds
RowValue(row) == LET ts == [k \in 1..Cardinality(DOMAIN row) |-> LET y == Asc(DOMAIN row)[k] IN IRMul(vals[y], row[y])]
                     RECURSIVE SumIR(_)
                     SumIR(s) == IF s = <<>> THEN IRZero ELSE IRAdd(Head(s), SumIR(Tail(s)))
                 IN SumIR(ts)
ValuesSatisfyRows == \A b \in DOMAIN tab : RowValue(tab[b]) = vals[b]
ValuesWithinBounds == (lastOp[1] \in {"assert", "init", "push"} /\ (lastOp[1] = "assert" => ~lastOp[4])) =>
                         \A z \in V : IRLe(lb[z].v, vals[z]) /\ IRLe(vals[z], ub[z].v)
NoCycling == lastOp[1] = "assert" => ~lastOp[4]
\* every bound is the tightest one among the true literals on the variable, and its reason is a true literal that asserts it
LowerOf(p) == LET a == Atoms[LitAbs(p)] IN IF p > 0 /\ a.o = "geq" THEN a.v ELSE IF p < 0 /\ a.o = "leq" THEN IRAdd(a.v, Eps) ELSE NInfIR
UpperOf(p) == LET a == Atoms[LitAbs(p)] IN IF p > 0 /\ a.o = "leq" THEN a.v ELSE IF p < 0 /\ a.o = "geq" THEN IRSub(a.v, Eps) ELSE PInfIR
TrueLitsOn(x) == {p \in {i \in 1..NA : aval[i] = "T"} \cup {-i : i \in {j \in 1..NA : aval[j] = "F"}} : Atoms[LitAbs(p)].x = x}
BoundsExact ==
  \A z \in V : /\ \A p \in TrueLitsOn(z) : IRLe(LowerOf(p), lb[z].v) /\ IRLe(ub[z].v, UpperOf(p))
               /\ (lb[z].r = 0 => IRIsInf(lb[z].v)) /\ (ub[z].r = 0 => IRIsInf(ub[z].v))
ReasonsValid ==
  \A z \in V : /\ lb[z].r # 0 => (lb[z].r \in TrueLitsOn(z) /\ LowerOf(lb[z].r) = lb[z].v)
               /\ ub[z].r # 0 => (ub[z].r \in TrueLitsOn(z) /\ UpperOf(ub[z].r) = ub[z].v)
\* C08: pop restores bounds and reasons of the matching push exactly
PopRestores == lastOp[1] = "pop" => (lb = lastOp[2].lb /\ ub = lastOp[2].ub)
=============================================================================
