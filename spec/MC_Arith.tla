------------------------------ MODULE MC_Arith ------------------------------
(* Self-check of the reference arithmetic (Rat, InfRat, Lin): the laws that "agree with      *)
(* exact mathematics" means (C15) are verified by TLC on every triple of a grid of operands. *)
(* If the reference semantics were wrong, the conformance check built on it would be too.    *)
EXTENDS Lin

VARIABLES a, b, c, ea, eb, la, lb, mode
vars == <<a, b, c, ea, eb, la, lb, mode>>

G == 3
Grid == {Norm(n, d) : n \in -G..G, d \in 0..G} \ {<<0, 0>>}
Finite == {q \in Grid : ~IsInf(q)}
Small == {Norm(n, d) : n \in -2..2, d \in 1..2}
EGrid == {<<r, i>> : r \in {q \in Grid : Abs(q[1]) <= 2 /\ q[2] <= 2}, i \in {Zero, One, Neg(One), <<1, 2>>}}
LGrid == {LMk([x \in {0, 1} |-> f[x + 1]], k) : f \in {<<p, q>> : p \in {Zero, One, <<-1, 2>>}, q \in {Zero, <<2, 1>>}}, k \in {Zero, One, <<-3, 2>>}}

Q0 == Zero
E0 == IRZero
L0 == LConst(Zero)
ESmall == {<<r, i>> : r \in {Zero, <<-1, 2>>}, i \in {One, Neg(One)}}
Init ==
  /\ mode = "init" /\ a = Q0 /\ b = Q0 /\ c = Q0 /\ ea = E0 /\ eb = E0 /\ la = L0 /\ lb = L0
\* two steps pick the operands of one family (two steps so that TLC's workers share the enumeration);
\* the laws are the invariants, evaluated on every choice
Pick1 ==
  /\ mode = "init"
  /\ \/ mode' = "q1" /\ a' \in Grid /\ UNCHANGED <<b, c, ea, eb, la, lb>>
     \/ mode' = "e1" /\ ea' \in EGrid /\ UNCHANGED <<a, b, c, eb, la, lb>>
     \/ mode' = "l1" /\ la' \in LGrid /\ a' \in Small /\ UNCHANGED <<b, c, ea, eb, lb>>
Pick2 ==
  \/ /\ mode = "q1" /\ mode' = "q" /\ b' \in Grid /\ c' \in Grid /\ UNCHANGED <<a, ea, eb, la, lb>>
  \/ /\ mode = "e1" /\ mode' = "e" /\ eb' \in EGrid /\ a' \in Small /\ b' \in {One, <<-1, 2>>}
     /\ UNCHANGED <<c, ea, la, lb>>
  \/ /\ mode = "l1" /\ mode' = "l" /\ lb' \in LGrid /\ ea' \in ESmall /\ eb' \in ESmall
     /\ UNCHANGED <<a, b, c, la>>
Pick == Pick1 \/ Pick2
Next == Pick
Spec == Init /\ [][Next]_vars

XOR3(p, q, r) == (p /\ ~q /\ ~r) \/ (~p /\ q /\ ~r) \/ (~p /\ ~q /\ r)

Order ==
  /\ XOR3(Lt(a, b), a = b, Lt(b, a))                         \* trichotomy
  /\ (Lt(a, b) /\ Lt(b, c)) => Lt(a, c)                      \* transitivity
  /\ Le(a, b) <=> ~Lt(b, a)
  /\ Le(NInf, a) /\ Le(a, PInf)
  /\ (~IsInf(a) /\ ~IsInf(b)) => (Lt(a, b) <=> IsNeg(Sub(a, b)))

Canon ==
  /\ IsCanonical(a)
  /\ AddDefined(a, b) => IsCanonical(Add(a, b))
  /\ MulDefined(a, b) => IsCanonical(Mul(a, b))
  /\ DivDefined(a, b) => IsCanonical(Div(a, b))
  /\ \A n \in -G..G, d \in (-G..G) \ {0} : Norm(n, d) = Norm(-n, -d) /\ Norm(2 * n, 2 * d) = Norm(n, d)

Field ==
  /\ AddDefined(a, b) => Add(a, b) = Add(b, a)
  /\ MulDefined(a, b) => Mul(a, b) = Mul(b, a)
  /\ (a \in Finite /\ b \in Finite /\ c \in Finite) =>
        /\ Add(Add(a, b), c) = Add(a, Add(b, c))
        /\ Mul(Mul(a, b), c) = Mul(a, Mul(b, c))
        /\ Mul(a, Add(b, c)) = Add(Mul(a, b), Mul(a, c))
        /\ Sub(Add(a, b), b) = a
        /\ ~IsZero(b) => Mul(Div(a, b), b) = a
        /\ Add(a, Neg(a)) = Zero
        /\ (Lt(a, b) => Lt(Add(a, c), Add(b, c)))
        /\ (Lt(a, b) /\ IsPos(c)) => Lt(Mul(a, c), Mul(b, c))
        /\ (Lt(a, b) /\ IsNeg(c)) => Lt(Mul(b, c), Mul(a, c))
  /\ (IsPInf(a) /\ b \in Finite) => Add(a, b) = PInf /\ (IsPos(b) => Mul(a, b) = PInf) /\ (IsNeg(b) => Mul(a, b) = NInf)
  /\ (b \in Finite /\ ~IsZero(b) /\ IsInf(a)) => IsInf(Div(a, b))
  /\ (b \in Finite /\ IsInf(a)) => Div(b, a) = Zero

Inf ==
  /\ XOR3(IRLt(ea, eb), IREqv(ea, eb), IRLt(eb, ea))
  /\ IRLe(ea, eb) <=> ~IRLt(eb, ea)
  /\ (~IRIsInf(ea) /\ ~IRIsInf(eb)) =>
        /\ IRAdd(ea, eb) = IRAdd(eb, ea)
        /\ IRSub(IRAdd(ea, eb), eb) = ea
        /\ (IRLt(ea, eb) <=> IRIsNeg(IRSub(ea, eb)))
        /\ (a \in Finite /\ IsPos(a)) => (IRLt(ea, eb) <=> IRLt(IRMul(ea, a), IRMul(eb, a)))
        /\ (a \in Finite /\ IsNeg(a)) => (IRLt(ea, eb) <=> IRLt(IRMul(eb, a), IRMul(ea, a)))
  /\ (a \in Finite /\ b \in Finite) => (Lt(a, b) <=> IRLt(IROf(a), IROf(b)))
  /\ (a \in Finite) => IRLt(IROf(a), <<a, One>>) /\ IRLt(<<a, Neg(One)>>, IROf(a))
  /\ (a \in Finite /\ b \in Finite /\ Lt(a, b)) => IRLt(<<a, One>>, <<b, Neg(One)>>)

Valn == [x \in {0, 1} |-> IF x = 0 THEN ea ELSE eb]
Linear ==
  /\ IsCanonicalLin(la) /\ IsCanonicalLin(LAdd(la, lb)) /\ IsCanonicalLin(LSub(la, lb))
  /\ LAdd(la, lb) = LAdd(lb, la)
  /\ LSub(LAdd(la, lb), lb) = la
  /\ LSub(la, la) = LConst(Zero)
  /\ LNeg(LNeg(la)) = la
  /\ LAdd(la, LNeg(lb)) = LSub(la, lb)
  /\ (a \in Small) => /\ LScale(LAdd(la, lb), a) = LAdd(LScale(la, a), LScale(lb, a))
                      /\ IsCanonicalLin(LScale(la, a))
                      /\ (~IsZero(a) => LDiv(LScale(la, a), a) = la)
                      /\ LAddK(la, a).k = Add(la.k, a) /\ LAddK(la, a).v = la.v
  /\ LScale(la, Zero) = LConst(Zero)
  /\ LScale(la, Neg(One)) = LNeg(la)
  \* evaluation is a homomorphism (on finite values)
  /\ (~IRIsInf(ea) /\ ~IRIsInf(eb)) =>
        /\ LEval(LAdd(la, lb), Valn) = IRAdd(LEval(la, Valn), LEval(lb, Valn))
        /\ LEval(LNeg(la), Valn) = IRNeg(LEval(la, Valn))
        /\ (a \in Small) => LEval(LScale(la, a), Valn) = IRMul(LEval(la, Valn), a)
=============================================================================
