SPECIFICATION OSpec
CONSTANTS
  NU = 0
  MaxCalls = 0
  MaxUnits = 0
  MaxLen = 0
  ArgPool <- NoPool
  Kinds <- NoKinds
  NestRet = FALSE
  WithConsts = FALSE
  UnitsAfter = FALSE
  DomPool <- DomsC
  MaxOv = 3
  MaxEq = 2
  MaxPrune = 1
  Rename <- RenA
INVARIANT TypeOK
INVARIANT ExactlyOne
INVARIANT EqualityMeaning
INVARIANT ValueSound
INVARIANT NeverEmpty
PROPERTY OConservative
CHECK_DEADLOCK FALSE
