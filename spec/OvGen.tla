------------------------------- MODULE OvGen -------------------------------
(* Test generator bound to OvImpl: every transition of the model's state graph is printed as one test - the shortest     *)
(* history TLC found to the source state plus the call - with the answer, the number of propositional variables, the      *)
(* value of every one of them and the values every object variable still allows after every call.                         *)
(* tools/ovreplay.py replays them on the real ov_theory / sat_core through net_driver; an execution that deviates from    *)
(* the model is handed to NetworkTrace, which decides.                                                                    *)
EXTENDS MC_OvImpl, Json

VARIABLE ops

AllowedV(vl, ov) == {ov.vals[i] : i \in {j \in DOMAIN ov.vals : V([val |-> vl], ov.lits[j]) # "F"}}
GInit == OInit /\ ops = <<>>
GNext == ONext /\ ops' = Append(ops, [call |-> lastOp', n |-> nv', v |-> val', dead |-> dead',
                                      ov |-> [i \in 1..Len(ovs') |-> AllowedV(val', ovs'[i])]])
GSpec == GInit /\ [][GNext]_<<ovars, ops>>
GView == ovars
Emit == PrintT(<<"OVTEST", ToJson([ops |-> ops'])>>)
=============================================================================
