---------------------------- MODULE DiffLogicImpl ----------------------------
(* Implementation-shaped model of smt::idl_theory (C08, C10): the distance matrix _dists,   *)
(* the predecessor matrix _preds, the map dist_constr of the constraint that currently       *)
(* enforces a pair, and the undo layers old_dists / old_preds / old_constrs (first write     *)
(* wins), with the incremental update of idl_theory::propagate(from, to, dist) transcribed   *)
(* loop by loop. Checked exhaustively by TLC for all assert / negate / push / pop histories  *)
(* over a fixed set of difference atoms: the matrix is always the Floyd-Warshall closure of  *)
(* the asserted constraints, a conflict is detected exactly when the new constraint closes a *)
(* negative cycle, predecessor walks are explanations made of currently enforced constraints,*)
(* and pop restores the state of the matching push exactly.                                  *)
EXTENDS Integers, Sequences, FiniteSets, TLC

CONSTANTS N,          \* number of time points 0..N-1 (0 is the origin)
          Atoms,      \* set of records [id, from, to, d] : 'to - from <= d'
          MaxLevel,
          SavePredBug,\* TRUE reproduces set_pred saving 'from' instead of the old predecessor (pinned-tree behaviour)
          Scale       \* 1: integer difference logic (the negation of 'to - from <= d' is 'from - to <= -d - 1');
                      \* K > 1: real difference logic with the infinitesimal as 1/K (the negation is 'from - to <= -d - eps')

Inf == 100000
P == 0..(N - 1)
NoPred == 99
AtomById(i) == CHOOSE a \in Atoms : a.id = i

VARIABLES dists, preds, dconstr, val, layers, hist, lastOp
vars == <<dists, preds, dconstr, val, layers, hist, lastOp>>

InitDists == [p \in P \X P |-> IF p[1] = p[2] THEN 0 ELSE Inf]
InitPreds == [p \in P \X P |-> IF p[1] = p[2] THEN NoPred ELSE p[1]]
Init ==
  /\ dists = InitDists /\ preds = InitPreds /\ dconstr = [p \in P \X P |-> 0]
  /\ val = [a \in Atoms |-> "U"] /\ layers = <<>> /\ hist = <<>> /\ lastOp = <<"init">>

\* ---- the asserted constraints and their exact closure (reference) ---------------------------------------------------
EdgeOf(a, v) == IF v = "T" THEN <<a.from, a.to, a.d * Scale>> ELSE <<a.to, a.from, -(a.d * Scale) - 1>>
Edges(vl) == {EdgeOf(a, vl[a]) : a \in {b \in Atoms : vl[b] # "U"}}
MinOf(S) == IF S = {} THEN Inf ELSE CHOOSE x \in S : \A y \in S : x <= y
Plus(x, y) == IF x >= Inf \/ y >= Inf THEN Inf ELSE x + y
D0(E) == [p \in P \X P |-> IF p[1] = p[2] THEN 0 ELSE MinOf({e[3] : e \in {f \in E : f[1] = p[1] /\ f[2] = p[2]}})]
RECURSIVE FWk(_, _)
FWk(D, k) == IF k = N THEN D ELSE FWk([p \in P \X P |-> IF Plus(D[<<p[1], k>>], D[<<k, p[2]>>]) < D[p] THEN Plus(D[<<p[1], k>>], D[<<k, p[2]>>]) ELSE D[p]], k + 1)
FW(E) == FWk(D0(E), 0)
NegCycle(E) == \E i \in P : FW(E)[<<i, i>>] < 0 \/ \E e \in E : e[1] = e[2] /\ e[3] < 0

\* ---- the state with an undo layer on top: set_dist / set_pred / store_constr as the code does ----------------------------
\* a state S = [d, p, c, top]  where top = [on, od, op, oc] (functions with partial domains); on = FALSE at root level
Save(f, k, v) == IF k \in DOMAIN f THEN f ELSE [x \in (DOMAIN f) \cup {k} |-> IF x = k THEN v ELSE f[x]]
SetDist(S, i, j, w) ==
  [S EXCEPT !.d = [S.d EXCEPT ![<<i, j>>] = w],
            !.top = IF ~S.top.on THEN S.top ELSE [S.top EXCEPT !.od = Save(S.top.od, <<i, j>>, S.d[<<i, j>>])]]
SetPred(S, i, j, q) ==
  [S EXCEPT !.p = [S.p EXCEPT ![<<i, j>>] = q],
            !.top = IF ~S.top.on THEN S.top
                    ELSE [S.top EXCEPT !.op = Save(S.top.op, <<i, j>>, IF SavePredBug THEN i ELSE S.p[<<i, j>>])]]
StoreConstr(S, i, j, id) ==
  [S EXCEPT !.c = [S.c EXCEPT ![<<i, j>>] = id],
            !.top = IF ~S.top.on THEN S.top ELSE [S.top EXCEPT !.oc = Save(S.top.oc, <<i, j>>, S.c[<<i, j>>])]]

\* the O(n) loop of idl_theory::propagate; acc = [S, si, sj]
RECURSIVE LoopU(_, _, _, _, _)
LoopU(acc, u, from, to, w) ==
  IF u = N THEN acc
  ELSE LET S1 == acc.S
           c1 == S1.d[<<u, from>>] # Inf /\ S1.d[<<u, from>>] < S1.d[<<u, to>>] - w
           S2 == IF c1 THEN SetPred(SetDist(S1, u, to, S1.d[<<u, from>>] + w), u, to, from) ELSE S1
           c2 == S2.d[<<to, u>>] # Inf /\ S2.d[<<to, u>>] < S2.d[<<from, u>>] - w
           S3 == IF c2 THEN SetPred(SetDist(S2, from, u, S2.d[<<to, u>>] + w), from, u, S2.p[<<to, u>>]) ELSE S2
       IN LoopU([S |-> S3, si |-> IF c1 THEN Append(acc.si, u) ELSE acc.si, sj |-> IF c2 THEN Append(acc.sj, u) ELSE acc.sj],
                u + 1, from, to, w)
\* the nested loop over set_i x set_j
RECURSIVE LoopIJ(_, _, _, _, _, _)
LoopIJ(S, si, sj, a, b, to) ==
  IF a > Len(si) THEN S
  ELSE IF b > Len(sj) THEN LoopIJ(S, si, sj, a + 1, 1, to)
  ELSE LET i == si[a]
           j == sj[b]
           better == i # j /\ S.d[<<i, to>>] + S.d[<<to, j>>] < S.d[<<i, j>>]
           S1 == IF better THEN SetPred(SetDist(S, i, j, S.d[<<i, to>>] + S.d[<<to, j>>]), i, j, S.p[<<to, j>>]) ELSE S
       IN LoopIJ(S1, si, sj, a, b + 1, to)
Propagate(S, from, to, w) ==
  LET S0 == SetPred(SetDist(S, from, to, w), from, to, from)
      r == LoopU([S |-> S0, si |-> <<>>, sj |-> <<>>], 0, from, to, w)
  IN LoopIJ(r.S, r.si, r.sj, 1, 1, to)

NoLayer == [on |-> FALSE, od |-> << >>, op |-> << >>, oc |-> << >>]
Cur == [d |-> dists, p |-> preds, c |-> dconstr, top |-> IF layers = <<>> THEN NoLayer ELSE layers[Len(layers)]]
Commit(S) ==
  /\ dists' = S.d /\ preds' = S.p /\ dconstr' = S.c
  /\ layers' = IF layers = <<>> THEN layers ELSE [layers EXCEPT ![Len(layers)] = S.top]

\* ---- actions ---------------------------------------------------------------------------------------------------------------------------
\* idl_theory::propagate(lit) for an atom becoming true / false
AssertLit(a, v) ==
  /\ val[a] = "U"
  /\ LET e == EdgeOf(a, v)
         f == e[1]
         t == e[2]
         w == e[3]
     IN IF dists[<<t, f>>] < -w
        THEN \* conflict: nothing is changed (the sat core backtracks); recorded for the ConflictIffNegCycle check
             /\ lastOp' = <<"conflict", a.id, v>>
             /\ UNCHANGED <<dists, preds, dconstr, val, layers, hist>>
        ELSE /\ val' = [val EXCEPT ![a] = v]
             /\ lastOp' = <<"assert", a.id, v>>
             /\ hist' = hist
             /\ IF dists[<<f, t>>] > w
                THEN Commit(Propagate(StoreConstr(Cur, f, t, a.id), f, t, w))
                ELSE UNCHANGED <<dists, preds, dconstr, layers>>
Push ==
  /\ Len(layers) < MaxLevel
  /\ layers' = Append(layers, [on |-> TRUE, od |-> << >>, op |-> << >>, oc |-> << >>])
  /\ hist' = Append(hist, <<dists, preds, dconstr, val>>)
  /\ lastOp' = <<"push">>
  /\ UNCHANGED <<dists, preds, dconstr, val>>
Pop ==
  /\ layers # <<>>
  /\ LET L == layers[Len(layers)]
     IN /\ dists' = [p \in P \X P |-> IF p \in DOMAIN L.od THEN L.od[p] ELSE dists[p]]
        /\ preds' = [p \in P \X P |-> IF p \in DOMAIN L.op THEN L.op[p] ELSE preds[p]]
        /\ dconstr' = [p \in P \X P |-> IF p \in DOMAIN L.oc THEN L.oc[p] ELSE dconstr[p]]
  /\ val' = hist[Len(hist)][4]          \* the sat core unassigns the literals of the level
  /\ layers' = SubSeq(layers, 1, Len(layers) - 1)
  /\ hist' = SubSeq(hist, 1, Len(hist) - 1)
  /\ lastOp' = <<"pop", hist[Len(hist)]>>

Next == Push \/ Pop \/ \E a \in Atoms, v \in {"T", "F"} : AssertLit(a, v)
Spec == Init /\ [][Next]_vars

\* ---- properties ------------------------------------------------------------------------------------------------------------------------
\* C10: the matrix is exactly the closure of the asserted constraints
DistExact == dists = FW(Edges(val))
\* C10: a conflict is signalled exactly when the new constraint closes a negative cycle
ConflictIffNegCycle ==
  /\ lastOp[1] = "conflict" => NegCycle(Edges(val) \cup {EdgeOf(AtomById(lastOp[2]), lastOp[3])})
  /\ lastOp[1] = "assert" => ~NegCycle(Edges(val))
\* C08: pop restores distances, predecessors and enforcing constraints of the matching push exactly
PopRestoresDists == lastOp[1] = "pop" => dists = lastOp[2][1]
PopRestoresConstrs == lastOp[1] = "pop" => dconstr = lastOp[2][3]
PopRestoresPreds == lastOp[1] = "pop" => preds = lastOp[2][2]
\* C10 (explanations): walking the predecessors from j back to i only crosses pairs enforced by a currently asserted
\* constraint, and the weights add up to the distance
RECURSIVE Walk(_, _, _, _)
Walk(i, j, steps, sum) ==      \* returns the total weight, or Inf+1 when the walk is not a chain of enforced constraints
  IF j = i THEN sum
  ELSE IF steps > N THEN Inf + 1
  ELSE LET q == preds[<<i, j>>]
       IN IF q \notin P \/ dconstr[<<q, j>>] = 0 THEN Inf + 1
          ELSE LET a == AtomById(dconstr[<<q, j>>])
               IN IF val[a] = "U" \/ EdgeOf(a, val[a])[1] # q \/ EdgeOf(a, val[a])[2] # j THEN Inf + 1
                  ELSE Walk(i, q, steps + 1, sum + EdgeOf(a, val[a])[3])
ExplanationsValid == \A p \in P \X P : (p[1] # p[2] /\ dists[p] < Inf) => Walk(p[1], p[2], 0, 0) = dists[p]
=============================================================================
