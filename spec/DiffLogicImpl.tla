---------------------------- MODULE DiffLogicImpl ----------------------------
(* Implementation-shaped model of smt::idl_theory (C08, C10): the distance matrix _dists,   *)
(* the predecessor matrix _preds, the map dist_constr of the constraint that currently       *)
(* enforces a pair, and the undo layers old_dists / old_preds / old_constrs (first write     *)
(* wins), with the incremental update of idl_theory::propagate(from, to, dist) transcribed   *)
(* loop by loop. Checked exhaustively by TLC for all assert / negate / push / pop histories  *)
(* over a fixed set of difference atoms: the matrix is always the Floyd-Warshall closure of  *)
(* the asserted constraints, a conflict is detected exactly when the new constraint closes a *)
(* negative cycle, predecessor walks are explanations made of currently enforced constraints,*)
(* and pop restores the state of the matching push exactly.                                  *)
EXTENDS Integers, Sequences, FiniteSets, TLC

CONSTANTS N,          \* number of time points 0..N-1 (0 is the origin)
          Atoms,      \* set of records [id, from, to, d] : 'to - from <= d'
          MaxLevel,
          PropGuardBug,\* TRUE: the pair (j, i) of the set_i x set_j loop is only looked at when j already reaches i (a seeded mistake)
          SavePredBug,\* TRUE reproduces set_pred saving 'from' instead of the old predecessor (pinned-tree behaviour)
          Scale       \* 1: integer difference logic (the negation of 'to - from <= d' is 'from - to <= -d - 1');
                      \* K > 1: real difference logic with the infinitesimal as 1/K (the negation is 'from - to <= -d - eps')

Inf == 100000
P == 0..(N - 1)
NoPred == 99
AtomById(i) == CHOOSE a \in Atoms : a.id = i

VARIABLES dists, preds, dconstr, val, layers, hist, lastOp,
          pv      \* what the theory itself told the sat core: the value of every atom the distances decide (record / enqueue)
vars == <<dists, preds, dconstr, val, layers, hist, lastOp, pv>>

InitDists == [p \in P \X P |-> IF p[1] = p[2] THEN 0 ELSE Inf]
InitPreds == [p \in P \X P |-> IF p[1] = p[2] THEN NoPred ELSE p[1]]
Init ==
  /\ dists = InitDists /\ preds = InitPreds /\ dconstr = [p \in P \X P |-> 0]
  /\ val = [a \in Atoms |-> "U"] /\ layers = <<>> /\ hist = <<>> /\ lastOp = <<"init">> /\ pv = [a \in Atoms |-> "U"]

\* ---- the asserted constraints and their exact closure (reference) ---------------------------------------------------
EdgeOf(a, v) == IF v = "T" THEN <<a.from, a.to, a.d * Scale>> ELSE <<a.to, a.from, -(a.d * Scale) - 1>>
Edges(vl) == {EdgeOf(a, vl[a]) : a \in {b \in Atoms : vl[b] # "U"}}
MinOf(S) == IF S = {} THEN Inf ELSE CHOOSE x \in S : \A y \in S : x <= y
Plus(x, y) == IF x >= Inf \/ y >= Inf THEN Inf ELSE x + y
D0(E) == [p \in P \X P |-> IF p[1] = p[2] THEN 0 ELSE MinOf({e[3] : e \in {f \in E : f[1] = p[1] /\ f[2] = p[2]}})]
RECURSIVE FWk(_, _)
FWk(D, k) == IF k = N THEN D ELSE FWk([p \in P \X P |-> IF Plus(D[<<p[1], k>>], D[<<k, p[2]>>]) < D[p] THEN Plus(D[<<p[1], k>>], D[<<k, p[2]>>]) ELSE D[p]], k + 1)
FW(E) == FWk(D0(E), 0)
NegCycle(E) == \E i \in P : FW(E)[<<i, i>>] < 0 \/ \E e \in E : e[1] = e[2] /\ e[3] < 0

\* ---- the state with an undo layer on top: set_dist / set_pred / store_constr as the code does ----------------------------
\* a state S = [d, p, c, top]  where top = [on, od, op, oc] (functions with partial domains); on = FALSE at root level
Save(f, k, v) == IF k \in DOMAIN f THEN f ELSE [x \in (DOMAIN f) \cup {k} |-> IF x = k THEN v ELSE f[x]]
SetDist(S, i, j, w) ==
  [S EXCEPT !.d = [S.d EXCEPT ![<<i, j>>] = w],
            !.top = IF ~S.top.on THEN S.top ELSE [S.top EXCEPT !.od = Save(S.top.od, <<i, j>>, S.d[<<i, j>>])]]
SetPred(S, i, j, q) ==
  [S EXCEPT !.p = [S.p EXCEPT ![<<i, j>>] = q],
            !.top = IF ~S.top.on THEN S.top
                    ELSE [S.top EXCEPT !.op = Save(S.top.op, <<i, j>>, IF SavePredBug THEN i ELSE S.p[<<i, j>>])]]
StoreConstr(S, i, j, id) ==
  [S EXCEPT !.c = [S.c EXCEPT ![<<i, j>>] = id],
            !.top = IF ~S.top.on THEN S.top ELSE [S.top EXCEPT !.oc = Save(S.top.oc, <<i, j>>, S.c[<<i, j>>])]]

\* the O(n) loop of idl_theory::propagate; acc = [S, si, sj]
RECURSIVE LoopU(_, _, _, _, _)
LoopU(acc, u, from, to, w) ==
  IF u = N THEN acc
  ELSE LET S1 == acc.S
           c1 == S1.d[<<u, from>>] # Inf /\ S1.d[<<u, from>>] < S1.d[<<u, to>>] - w
           S2 == IF c1 THEN SetPred(SetDist(S1, u, to, S1.d[<<u, from>>] + w), u, to, from) ELSE S1
           c2 == S2.d[<<to, u>>] # Inf /\ S2.d[<<to, u>>] < S2.d[<<from, u>>] - w
           S3 == IF c2 THEN SetPred(SetDist(S2, from, u, S2.d[<<to, u>>] + w), from, u, S2.p[<<to, u>>]) ELSE S2
       IN LoopU([S |-> S3, si |-> IF c1 THEN Append(acc.si, u) ELSE acc.si, sj |-> IF c2 THEN Append(acc.sj, u) ELSE acc.sj,
                 upd |-> acc.upd \cup (IF c1 THEN {<<u, to>>, <<to, u>>} ELSE {}) \cup (IF c2 THEN {<<from, u>>, <<u, from>>} ELSE {})],
                u + 1, from, to, w)
\* the nested loop over set_i x set_j
RECURSIVE LoopIJ(_, _, _, _, _, _, _)
LoopIJ(S, si, sj, a, b, to, upd) ==
  IF a > Len(si) THEN [S |-> S, upd |-> upd]
  ELSE IF b > Len(sj) THEN LoopIJ(S, si, sj, a + 1, 1, to, upd)
  ELSE LET i == si[a]
           j == sj[b]
           better == i # j /\ S.d[<<i, to>>] + S.d[<<to, j>>] < S.d[<<i, j>>]
           S1 == IF better THEN SetPred(SetDist(S, i, j, S.d[<<i, to>>] + S.d[<<to, j>>]), i, j, S.p[<<to, j>>]) ELSE S
           u1 == IF better THEN upd \cup {<<i, j>>} \cup (IF PropGuardBug /\ S.d[<<j, i>>] >= Inf THEN {} ELSE {<<j, i>>}) ELSE upd
       IN LoopIJ(S1, si, sj, a, b + 1, to, u1)
\* returns the new state and c_updates: the pairs whose distance changed, in both directions (the constraints registered
\* on them are looked at afterwards)
Propagate(S, from, to, w) ==
  LET S0 == SetPred(SetDist(S, from, to, w), from, to, from)
      r == LoopU([S |-> S0, si |-> <<>>, sj |-> <<>>, upd |-> {<<from, to>>, <<to, from>>}], 0, from, to, w)
  IN LoopIJ(r.S, r.si, r.sj, 1, 1, to, r.upd)
\* the last loop of propagate: every undecided constraint registered on an updated pair that the distances now decide is
\* told to the sat core (record): false when the opposite distance contradicts it, true when the distance makes it redundant
Decided(D, b) == IF D[<<b.to, b.from>>] < -(b.d * Scale) THEN "F" ELSE IF D[<<b.from, b.to>>] <= b.d * Scale THEN "T" ELSE "U"
Newly(D, upd, vl, p) == {b \in Atoms : vl[b] = "U" /\ p[b] = "U" /\ <<b.from, b.to>> \in upd /\ Decided(D, b) # "U"}
TheoryProp(D, upd, vl, p) == [b \in Atoms |-> IF b \in Newly(D, upd, vl, p) THEN Decided(D, b) ELSE p[b]]
\* the reason recorded with each of them: the literal itself and the negation of what the constraints enforcing the path
\* (walked back over the predecessors) currently are; literals are signed atom ids
RECURSIVE PathLits(_, _, _, _, _, _)
PathLits(S, vl, root, at, stop, fuel) ==
  IF at = stop \/ fuel = 0 THEN {}
  ELSE LET q == S.p[<<root, at>>]
       IN IF q \notin P THEN {}
          ELSE LET id == S.c[<<q, at>>]
                   l == IF id = 0 THEN {} ELSE IF vl[AtomById(id)] = "T" THEN {-id} ELSE IF vl[AtomById(id)] = "F" THEN {id} ELSE {}
               IN l \cup PathLits(S, vl, root, q, stop, fuel - 1)
Lemma(S, vl, b) ==
  IF Decided(S.d, b) = "F" THEN {-b.id} \cup PathLits(S, vl, b.to, b.from, b.to, N)
  ELSE {b.id} \cup PathLits(S, vl, b.from, b.to, b.from, N)
Lemmas(S, upd, vl, p) == {Lemma(S, vl, b) : b \in Newly(S.d, upd, vl, p)}

NoLayer == [on |-> FALSE, od |-> << >>, op |-> << >>, oc |-> << >>]
Cur == [d |-> dists, p |-> preds, c |-> dconstr, top |-> IF layers = <<>> THEN NoLayer ELSE layers[Len(layers)]]
Commit(S) ==
  /\ dists' = S.d /\ preds' = S.p /\ dconstr' = S.c
  /\ layers' = IF layers = <<>> THEN layers ELSE [layers EXCEPT ![Len(layers)] = S.top]

\* ---- actions ---------------------------------------------------------------------------------------------------------------------------
\* idl_theory::propagate(lit) for an atom becoming true / false
AssertLit(a, v) ==
  /\ val[a] = "U"
  /\ LET e == EdgeOf(a, v)
         f == e[1]
         t == e[2]
         w == e[3]
     IN IF dists[<<t, f>>] < -w
        THEN \* conflict: nothing is changed (the sat core backtracks); recorded for the ConflictIffNegCycle check
             /\ lastOp' = <<"conflict", a.id, v>>
             /\ UNCHANGED <<dists, preds, dconstr, val, layers, hist, pv>>
        ELSE /\ val' = [val EXCEPT ![a] = v]
             /\ hist' = hist
             /\ IF dists[<<f, t>>] > w
                THEN LET r == Propagate(StoreConstr(Cur, f, t, a.id), f, t, w)
                     IN Commit(r.S) /\ pv' = TheoryProp(r.S.d, r.upd, val', pv)
                ELSE UNCHANGED <<dists, preds, dconstr, layers, pv>>
             /\ lastOp' = <<"assert", a.id, v,
                            IF dists[<<f, t>>] > w
                            THEN LET r == Propagate(StoreConstr(Cur, f, t, a.id), f, t, w) IN Lemmas(r.S, r.upd, val', pv)
                            ELSE {}>>
Push ==
  /\ Len(layers) < MaxLevel
  /\ layers' = Append(layers, [on |-> TRUE, od |-> << >>, op |-> << >>, oc |-> << >>])
  /\ hist' = Append(hist, <<dists, preds, dconstr, val, pv>>)
  /\ lastOp' = <<"push">>
  /\ UNCHANGED <<dists, preds, dconstr, val, pv>>
Pop ==
  /\ layers # <<>>
  /\ LET L == layers[Len(layers)]
     IN /\ dists' = [p \in P \X P |-> IF p \in DOMAIN L.od THEN L.od[p] ELSE dists[p]]
        /\ preds' = [p \in P \X P |-> IF p \in DOMAIN L.op THEN L.op[p] ELSE preds[p]]
        /\ dconstr' = [p \in P \X P |-> IF p \in DOMAIN L.oc THEN L.oc[p] ELSE dconstr[p]]
  /\ val' = hist[Len(hist)][4]          \* the sat core unassigns the literals of the level
  /\ pv' = hist[Len(hist)][5]
  /\ layers' = SubSeq(layers, 1, Len(layers) - 1)
  /\ hist' = SubSeq(hist, 1, Len(hist) - 1)
  /\ lastOp' = <<"pop", hist[Len(hist)]>>

Next == Push \/ Pop \/ \E a \in Atoms, v \in {"T", "F"} : AssertLit(a, v)
Spec == Init /\ [][Next]_vars

\* ---- properties ------------------------------------------------------------------------------------------------------------------------
\* C10: the matrix is exactly the closure of the asserted constraints
DistExact == dists = FW(Edges(val))
\* C10: a conflict is signalled exactly when the new constraint closes a negative cycle
ConflictIffNegCycle ==
  /\ lastOp[1] = "conflict" => NegCycle(Edges(val) \cup {EdgeOf(AtomById(lastOp[2]), lastOp[3])})
  /\ lastOp[1] = "assert" => ~NegCycle(Edges(val))
\* C10: every undecided constraint that the distances decide has been told to the sat core with the right value, and
\* nothing else has (the value of an atom is what was asserted, else what the theory propagated)
Eff(a) == IF val[a] # "U" THEN val[a] ELSE pv[a]
PropagationComplete == lastOp[1] # "conflict" => \A b \in Atoms : val[b] = "U" => pv[b] = Decided(dists, b)
\* C07 / C10: every reason is a valid clause of the theory: the atoms with the values that falsify it are inconsistent
LitEdge(l) == LET a == AtomById(IF l < 0 THEN -l ELSE l) IN EdgeOf(a, IF l < 0 THEN "T" ELSE "F")     \* the edge of the NEGATED literal
LemmasValid == lastOp[1] = "assert" => \A c \in lastOp[4] : NegCycle({LitEdge(l) : l \in c})
\* C08: pop restores distances, predecessors and enforcing constraints of the matching push exactly
PopRestoresDists == lastOp[1] = "pop" => dists = lastOp[2][1]
PopRestoresConstrs == lastOp[1] = "pop" => dconstr = lastOp[2][3]
PopRestoresPreds == lastOp[1] = "pop" => preds = lastOp[2][2]
\* C10 (explanations): walking the predecessors from j back to i only crosses pairs enforced by a currently asserted
\* constraint, and the weights add up to the distance
RECURSIVE Walk(_, _, _, _)
Walk(i, j, steps, sum) ==      \* returns the total weight, or Inf+1 when the walk is not a chain of enforced constraints
  IF j = i THEN sum
  ELSE IF steps > N THEN Inf + 1
  ELSE LET q == preds[<<i, j>>]
       IN IF q \notin P \/ dconstr[<<q, j>>] = 0 THEN Inf + 1
          ELSE LET a == AtomById(dconstr[<<q, j>>])
               IN IF val[a] = "U" \/ EdgeOf(a, val[a])[1] # q \/ EdgeOf(a, val[a])[2] # j THEN Inf + 1
                  ELSE Walk(i, q, steps + 1, sum + EdgeOf(a, val[a])[3])
ExplanationsValid == \A p \in P \X P : (p[1] # p[2] /\ dists[p] < Inf) => Walk(p[1], p[2], 0, 0) = dists[p]
=============================================================================
