--------------------------- MODULE ConstraintSat ---------------------------
(* The independent complete decision procedure for the constraint-only fragment of RIDDLE    *)
(* (C02): programs over two booleans and two reals whose statements are boolean literals,     *)
(* binary disjunctions / exactly-one, linear relations (including !=) and two-way            *)
(* disjunctions of linear relations, and disjunctions of a linear relation with a boolean    *)
(* literal. A program is satisfiable iff for some assignment of the *)
(* booleans, some choice of disjuncts and some split of every disequality into < or >, the   *)
(* resulting conjunction of linear constraints is feasible (Fourier-Motzkin, LraSem).         *)
(* Input: abstract programs (NDJSON, written by tools/gen_problems.py); output: verdicts.     *)
EXTENDS LraSem, Json, IOUtils, SequencesExt

In == ndJsonDeserialize(IOEnv.GEN_IN)
Out == IOEnv.GEN_OUT

\* a relation record: [rel, a0, a1, c]  meaning  a0*x0 + a1*x1  rel  c
RelExpr(r) == LMk([x \in {0, 1} |-> IF x = 0 THEN RatOf(r.a0) ELSE RatOf(r.a1)], RatOf(-r.c))   \* lhs - c
\* alternatives (sets of constraints) under which the relation holds
RelAlts(r) ==
  IF r.rel = "neq" THEN {RelCons("lt", RelExpr(r), LConst(Zero)), RelCons("gt", RelExpr(r), LConst(Zero))}
  ELSE {RelCons(r.rel, RelExpr(r), LConst(Zero))}

BoolOK(st, bv) ==    \* bv: <<b0, b1>> truth values
  LET val(b, pos) == bv[b + 1] = pos
  IN CASE st.k = "lit" -> val(st.b, st.pos = 1)
       [] st.k = "or" -> val(st.b, st.pos = 1) \/ val(st.b2, st.pos2 = 1)
       [] st.k = "xor" -> val(st.b, st.pos = 1) # val(st.b2, st.pos2 = 1)     \* (b ^ b is false: every occurrence counts)
       [] OTHER -> TRUE
\* the arithmetic statements of a program as a set of "alternative sets" (one must be chosen from each), under the
\* boolean assignment bv
ArithChoices(st, bv) ==
  CASE st.k = "rel" -> RelAlts(st.r)
    [] st.k = "disj" -> RelAlts(st.r) \cup RelAlts(st.r2)
    [] st.k = "relor" -> IF bv[st.b + 1] = (st.pos = 1) THEN {{}} ELSE RelAlts(st.r)      \* relation | literal
    [] OTHER -> {{}}
RECURSIVE SomeFeasible(_, _, _, _)
SomeFeasible(stmts, i, acc, bv) ==
  IF i > Len(stmts) THEN Feasible(acc)
  ELSE \E alt \in ArithChoices(stmts[i], bv) : SomeFeasible(stmts, i + 1, acc \cup alt, bv)
Sat(p) ==
  \E bv \in {<<x, y>> : x \in BOOLEAN, y \in BOOLEAN} :
     /\ \A i \in DOMAIN p.stmts : BoolOK(p.stmts[i], bv)
     /\ SomeFeasible(p.stmts, 1, {}, bv)

ASSUME ndJsonSerialize(Out, [i \in DOMAIN In |-> [id |-> In[i].id, sat |-> Sat(In[i])]])
ASSUME PrintT(<<"DECIDED", Len(In)>>)

VARIABLE x
Init == x = 0
Next == x' = x
Spec == Init /\ [][Next]_x
=============================================================================
