SPECIFICATION GSpec
CONSTANTS
  NV = 4
  Pool <- PoolA
  MaxLevel = 3
  MaxLearnt = 4
  CheckPool <- ChecksA
  EmitFrom = 18
  LoseWatchBug = FALSE
CONSTRAINT Bounded
VIEW GView
ACTION_CONSTRAINT Emit
CHECK_DEADLOCK FALSE
