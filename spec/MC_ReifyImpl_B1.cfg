SPECIFICATION Spec
CONSTANTS
  NU = 2
  MaxCalls = 2
  MaxUnits = 1
  MaxLen = 2
  ArgPool <- NoPool
  Kinds = {"eq", "conj", "disj", "amo", "exo"}
  NestRet = TRUE
  WithConsts = FALSE
  UnitsAfter = TRUE
INVARIANT TypeOK
INVARIANT ReifiedMeaning
INVARIANT CacheSound
PROPERTY Conservative
PROPERTY NotExcluding
CHECK_DEADLOCK FALSE
