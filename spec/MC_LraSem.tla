------------------------------ MODULE MC_LraSem ------------------------------
(* Self-check of the Fourier-Motzkin oracle against brute force: for every system of up to  *)
(* three constraints over two variables with small integer coefficients, Infeasible agrees  *)
(* with the non-existence of a solution on a half-integer grid that contains a witness      *)
(* whenever the system is feasible (vertices of such systems have denominators <= 8 ... the *)
(* grid check is one-directional: a grid solution implies ~Infeasible; and Infeasible is    *)
(* additionally certified by exhibiting that no grid point of a finer grid satisfies it).   *)
EXTENDS LraSem

CONSTANT MaxCons
VARIABLES sys, mode
vars == <<sys, mode>>

Coefs == {-2, -1, 0, 1, 2}
Ks == {-2, -1, 0, 1}
MkCon(a, b, k, s) == Con(LMk([x \in {0, 1} |-> IF x = 0 THEN RatOf(a) ELSE RatOf(b)], RatOf(k)), s)
AllCons == {MkCon(a, b, k, s) : a \in Coefs, b \in Coefs, k \in Ks, s \in BOOLEAN}

\* ---- an independent decision procedure for two variables: vertex enumeration ---------------------------
\* a strict constraint e < 0 is replaced by e + 1/64 <= 0: with coefficients in -2..2 and constants in -2..1 a
\* strictly feasible system of <= 3 constraints has a point with slack >= 1/48 on every strict constraint (the
\* optimum of the max-slack LP is a vertex whose denominators are 3x3 minors, <= 48, or it is unbounded)
Eps(S) == {IF c.strict THEN Con(LAddK(c.e, <<1, 64>>), FALSE) ELSE c : c \in S}
A0(c) == LCoef(c.e, 0)
A1(c) == LCoef(c.e, 1)
Det(c1, c2) == Sub(Mul(A0(c1), A1(c2)), Mul(A1(c1), A0(c2)))
\* intersection of the boundary lines of c1 and c2 (Cramer), when they are not parallel
Vertex(c1, c2) ==
  LET d == Det(c1, c2)
      k1 == Neg(c1.e.k)
      k2 == Neg(c2.e.k)
  IN << Div(Sub(Mul(k1, A1(c2)), Mul(A1(c1), k2)), d), Div(Sub(Mul(A0(c1), k2), Mul(k1, A0(c2))), d) >>
Candidates(S) ==
  {<<Zero, Zero>>}
  \cup {Vertex(c1, c2) : <<c1, c2>> \in {pr \in S \X S : ~IsZero(Det(pr[1], pr[2]))}}
  \cup {<<Div(Neg(c.e.k), A0(c)), Zero>> : c \in {d \in S : ~IsZero(A0(d))}}
  \cup {<<Zero, Div(Neg(c.e.k), A1(c))>> : c \in {d \in S : ~IsZero(A1(d))}}
PtVal(pt) == [x \in {0, 1} |-> IROf(pt[x + 1])]
\* a non-empty closed polyhedron in the plane contains a vertex, or a point of a boundary line on an axis, or the origin
BruteFeasible(S) == \E pt \in Candidates(Eps(S)) : \A c \in Eps(S) : ConHolds(c, PtVal(pt))

Init == mode = 0 /\ sys = {}
AddCon == mode < MaxCons /\ \E c \in AllCons : sys' = sys \cup {c} /\ mode' = mode + 1
Next == AddCon
Spec == Init /\ [][Next]_vars

Agree == BruteFeasible(sys) <=> Feasible(sys)
\* adding a constraint never turns an infeasible system feasible
Monotone == \A c \in sys : Infeasible(sys \ {c}) => Infeasible(sys)
=============================================================================
