------------------------------- MODULE Network -------------------------------
(* The abstract constraint network an API user sees (C07 - C14): propositional variables,  *)
(* the clauses added so far (represented by their set of models), the meaning of theory      *)
(* literals (linear relations, difference constraints), object variables, and the standing   *)
(* decisions. The operators below are the API-level contracts; NetworkTrace.tla applies them *)
(* to every call recorded from the real library.                                             *)
EXTENDS SatSem, LraSem, DiffLogic, TLC

\* ---- theory atoms ---------------------------------------------------------------------------
\* uniform record shape: th in {"lra","idl","rdl"};  v the propositional variable;
\*   lra:  v true <=> e rel 0        (e = left - right, rel in {"lt","leq","geq","gt"})
\*   dl :  v true <=> to - from <= d
LraAtom(v, rel, e) == [th |-> "lra", v |-> v, rel |-> rel, e |-> e, from |-> 0, to |-> 0, d |-> IRZero]
DlAtom(th, v, from, to, d) == [th |-> th, v |-> v, rel |-> "", e |-> LConst(Zero), from |-> from, to |-> to, d |-> d]

AtomVars(atoms) == {a.v : a \in atoms}

\* constraints of the LRA atoms under the sign vector s (set of atom variables that are true), for atoms whose
\* variable is in 'dom' (assigned ones); defs are the defining equations x = e of derived variables
LraAtomCons(a, pos) == RelCons(IF pos THEN a.rel ELSE NegRel(a.rel), a.e, LConst(Zero))
DefCons(defs) == UNION {{Con(LSub(LVar(df.x, One), df.e), FALSE), Con(LSub(df.e, LVar(df.x, One)), FALSE)} : df \in defs}
LraCons(atoms, defs, s, dom) ==
  UNION {LraAtomCons(a, a.v \in s) : a \in {b \in atoms : b.th = "lra" /\ b.v \in dom}} \cup DefCons(defs)
DlEdges(atoms, th, s, dom) ==
  {AtomEdge(a.from, a.to, a.d, a.v \in s, th = "rdl") : a \in {b \in atoms : b.th = th /\ b.v \in dom}}

\* the sign vector s over all atom variables is consistent in theory th
ThConsistent(th, atoms, defs, nIdl, nRdl, s) ==
  CASE th = "lra" -> Feasible(LraCons(atoms, defs, s, AtomVars(atoms)))
    [] th = "idl" -> Consistent(nIdl, DlEdges(atoms, "idl", s, AtomVars(atoms)))
    [] th = "rdl" -> Consistent(nRdl, DlEdges(atoms, "rdl", s, AtomVars(atoms)))

\* difference constraints as linear constraints over the time points (point 0 is the origin, value 0)
TpVar(x, c) == IF x = 0 THEN LConst(Zero) ELSE LVar(x, c)
EdgeCon(e) ==    \* to - from - w <= 0 ; a negative infinitesimal in w makes it strict
  Con(LSubK(LAdd(TpVar(e.to, One), TpVar(e.from, Neg(One))), e.w[1]), IsNeg(e.w[2]))

\* ---- difference-logic relations (C12) ---------------------------------------------------------------
\* e = l - r is c*x + k or c*(x - y) + k. In the integer theory every time point is an integer: after scaling
\* e to coefficients +-1 a strict relation e < 0 is e + 1 <= 0.
LeadAbs(e) == LET x == CHOOSE y \in DOMAIN e.v : TRUE IN IF IsNeg(e.v[x]) THEN Neg(e.v[x]) ELSE e.v[x]
Unit(e) == IF DOMAIN e.v = {} THEN e ELSE LDiv(e, LeadAbs(e))
DlRelCons(real, rel, e) ==
  IF real THEN RelCons(rel, e, LConst(Zero))
  ELSE LET u == Unit(e)
       IN CASE rel = "lt" -> {Con(LAddK(u, One), FALSE)}
            [] rel = "leq" -> {Con(u, FALSE)}
            [] rel = "geq" -> {Con(LNeg(u), FALSE)}
            [] rel = "gt" -> {Con(LAddK(LNeg(u), One), FALSE)}
            [] rel = "eq" -> {Con(u, FALSE), Con(LNeg(u), FALSE)}
\* the negation of a relation as a set of alternatives (each a set of constraints)
DlNegAlternatives(real, rel, e) ==
  CASE rel = "lt" -> {DlRelCons(real, "geq", e)}
    [] rel = "leq" -> {DlRelCons(real, "gt", e)}
    [] rel = "geq" -> {DlRelCons(real, "lt", e)}
    [] rel = "gt" -> {DlRelCons(real, "leq", e)}
    [] rel = "eq" -> {DlRelCons(real, "lt", e), DlRelCons(real, "gt", e)}
\* the lin uses time point 0 as a variable never (the drivers do not generate it), so no substitution is needed
EntailsAll(cons, cs) == \A c \in cs : Entails(cons, c)
\* cons entails the relation / its negation (for "eq" the negation is a disjunction: cons must exclude equality,
\* i.e. be inconsistent with both e <= 0 and e >= 0 holding together)
DlEntailsRel(cons, real, rel, e) == EntailsAll(cons, DlRelCons(real, rel, e))
DlEntailsNeg(cons, real, rel, e) ==
  IF rel = "eq" THEN Infeasible(cons \cup DlRelCons(real, "eq", e))
  ELSE EntailsAll(cons, CHOOSE alt \in DlNegAlternatives(real, rel, e) : TRUE)

\* ---- expected answers of the expression queries on a distance matrix D (C12) ----------------------------
\* bounds of c*x + k and c*(x - y) + k from the variable-level distances
ScaleIv(lo, hi, c) == IF IsPos(c) THEN <<IRMul(lo, c), IRMul(hi, c)>> ELSE <<IRMul(hi, c), IRMul(lo, c)>>
DLo(D, f, t) == IF DIsInf(D[<<t, f>>]) THEN <<NInf, Zero>> ELSE IRNeg(D[<<t, f>>])   \* lower bound of t - f
DHi(D, f, t) == D[<<f, t>>]                                                           \* upper bound of t - f
ShiftIv(iv, k) == << IF IsInf(iv[1][1]) THEN iv[1] ELSE IRAdd(iv[1], IROf(k)),
                     IF IsInf(iv[2][1]) THEN iv[2] ELSE IRAdd(iv[2], IROf(k)) >>
ExprBounds(D, e) ==
  LET xs == DOMAIN e.v
  IN IF xs = {} THEN <<IROf(e.k), IROf(e.k)>>
     ELSE IF Cardinality(xs) = 1
     THEN LET x == CHOOSE y \in xs : TRUE
          IN ShiftIv(ScaleIv(DLo(D, 0, x), DHi(D, 0, x), e.v[x]), e.k)
     ELSE LET x == CHOOSE y \in xs : IsPos(e.v[y])             \* e = c*(x - y) + k with c > 0
              y == CHOOSE z \in xs : z # x
          IN ShiftIv(ScaleIv(DLo(D, y, x), DHi(D, y, x), e.v[x]), e.k)
SameIv(a, b) == IREqv(a[1], b[1]) /\ IREqv(a[2], b[2])
=============================================================================
