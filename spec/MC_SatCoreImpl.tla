-------------------------- MODULE MC_SatCoreImpl --------------------------
EXTENDS SatCoreImpl
\* (1 v 2) (-1 v 3) (-2 v 3) (-3 v 4 v -1) (-3 v -4) (2 v -4 v 1): conflicts two and three propagations deep, a unit
\* consequence at root level (3), satisfiable as a whole
PoolA == << <<1, 2>>, <<-1, 3>>, <<-2, 3>>, <<-3, 4, -1>>, <<-3, -4, 2>>, <<2, -4, 1>> >>
\* an unsatisfiable pool (all eight sign patterns over three variables are not needed: these six force a root conflict)
PoolB == << <<1, 2>>, <<-1, 2>>, <<1, -2, 3>>, <<-1, -2, 3>>, <<-3, -2>>, <<3, 4>>, <<-4, 1, 2, 2>> >>
\* duplicates, a tautology, a unit
PoolC == << <<1, 1, 2>>, <<3, -3>>, <<-2>>, <<-1, 3, 4>>, <<-3, -4, -1>>, <<4, 1>> >>
\* check(): single literals of both signs, pairs whose second literal is decided by the first, a pair that conflicts
ChecksA == << <<-1>>, <<4>>, <<1, 4>>, <<-4, -1>>, <<-2, -1>>, <<2>>, <<-3>>, <<4, -2>> >>
NoChecks == << >>
=============================================================================
