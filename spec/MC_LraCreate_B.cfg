SPECIFICATION LSpec
CONSTANTS
  NU = 0
  MaxCalls = 0
  MaxUnits = 0
  MaxLen = 0
  ArgPool <- NoPool
  Kinds <- NoKinds
  NestRet = FALSE
  WithConsts = FALSE
  UnitsAfter = FALSE
  NX = 2
  Boxes <- BoxesA
  Coefs <- CoefsB
  Consts = {0, 1}
  Ops = {"lt", "leq", "eq", "geq", "gt"}
  DefPool <- DefsB
  CoefPool <- PoolB
  MaxRel = 2
  Grid <- GridA
INVARIANT RelationMeaning
INVARIANT SlackConsistent
INVARIANT RowsOverPlain
CHECK_DEADLOCK FALSE
