SPECIFICATION Spec
CONSTANTS
  NU = 2
  MaxCalls = 2
  MaxUnits = 2
  MaxLen = 2
  ArgPool <- NoPool
  Kinds = {"eq", "conj", "disj", "amo", "exo"}
  NestRet = TRUE
  WithConsts = TRUE
  UnitsAfter = TRUE
INVARIANT TypeOK
INVARIANT ReifiedMeaning
INVARIANT CacheSound
PROPERTY Conservative
PROPERTY NotExcluding
CHECK_DEADLOCK FALSE
