------------------------------ MODULE ParPivot ------------------------------
(* The parallel part of lra_theory::pivot (C20). After the entering row has been solved for *)
(* x_j, one task per row r that watches x_j substitutes the expression: for every variable  *)
(* v of the expression, either v is new in r (r is inserted into the watch list of v) or    *)
(* its coefficient is updated and, when it becomes zero, r is erased from the watch list of *)
(* v. Rows are private to their task; a watch list is shared and its update (modelled as a  *)
(* read followed by a write, which is what an unordered_set insertion amounts to) is done   *)
(* while holding the mutex of v. The main thread joins before it goes on.                   *)
EXTENDS Integers, Sequences, FiniteSets, TLC

CONSTANTS Rows, Vars, Locking     \* Locking = FALSE models the code without the per-variable mutex (it must fail)
VARIABLES watch,     \* variable -> set of rows watching it (shared)
          has,       \* row -> set of variables of the expression currently in the row (private)
          cancel,    \* row -> set of variables whose coefficient cancels (fixed at the beginning)
          todo,      \* row -> variables of the expression still to be processed by the task of the row
          phase,     \* row -> "pick" | "locked" | "read" | "done"
          cur,       \* row -> variable being processed
          tmp,       \* row -> local copy of the watch list read
          owner,     \* variable -> row holding its mutex, or "free"
          init       \* snapshot of <<watch, has>> at the beginning (to state the sequential result)
vars == <<watch, has, cancel, todo, phase, cur, tmp, owner, init>>

Init ==
  /\ has \in [Rows -> SUBSET Vars]
  /\ watch = [v \in Vars |-> {r \in Rows : v \in has[r]}]
  /\ cancel \in [Rows -> SUBSET Vars]
  /\ todo = [r \in Rows |-> Vars]
  /\ phase = [r \in Rows |-> "pick"]
  /\ cur = [r \in Rows |-> CHOOSE v \in Vars : TRUE]
  /\ tmp = [r \in Rows |-> {}]
  /\ owner = [v \in Vars |-> "free"]
  /\ init = <<watch, has>>

\* what the variable v of the expression does to row r: "insert" (new term), "erase" (the term cancels), "keep"
Effect(r, v) == IF v \notin has[r] THEN "insert" ELSE IF v \in cancel[r] THEN "erase" ELSE "keep"

Pick(r) ==
  /\ phase[r] = "pick" /\ todo[r] # {}
  /\ \E v \in todo[r] :
       /\ cur' = [cur EXCEPT ![r] = v]
       /\ todo' = [todo EXCEPT ![r] = todo[r] \ {v}]
       /\ IF Effect(r, v) = "keep"
          THEN UNCHANGED <<phase, owner, has>>          \* only the private coefficient changes
          ELSE /\ has' = [has EXCEPT ![r] = IF Effect(r, v) = "insert" THEN has[r] \cup {v} ELSE has[r] \ {v}]
               /\ IF Locking
                  THEN owner[v] = "free" /\ owner' = [owner EXCEPT ![v] = r]      \* lock_guard: blocks while taken
                  ELSE UNCHANGED owner
               /\ phase' = [phase EXCEPT ![r] = "locked"]
  /\ UNCHANGED <<watch, cancel, tmp, init>>
Read(r) ==
  /\ phase[r] = "locked"
  /\ tmp' = [tmp EXCEPT ![r] = watch[cur[r]]]
  /\ phase' = [phase EXCEPT ![r] = "read"]
  /\ UNCHANGED <<watch, has, cancel, todo, cur, owner, init>>
Write(r) ==
  /\ phase[r] = "read"
  /\ watch' = [watch EXCEPT ![cur[r]] = IF cur[r] \in has[r] THEN tmp[r] \cup {r} ELSE tmp[r] \ {r}]
  /\ owner' = IF Locking THEN [owner EXCEPT ![cur[r]] = "free"] ELSE owner
  /\ phase' = [phase EXCEPT ![r] = "pick"]
  /\ UNCHANGED <<has, cancel, todo, cur, tmp, init>>
Finish(r) == phase[r] = "pick" /\ todo[r] = {} /\ phase' = [phase EXCEPT ![r] = "done"] /\ UNCHANGED <<watch, has, cancel, todo, cur, tmp, owner, init>>

Next == \E r \in Rows : Pick(r) \/ Read(r) \/ Write(r) \/ Finish(r)
Spec == Init /\ [][Next]_vars /\ WF_vars(Next)

AllDone == \A r \in Rows : phase[r] = "done"
\* at most one task is inside the critical section of a variable
MutualExclusion == \A r1, r2 \in Rows : (r1 # r2 /\ phase[r1] \in {"locked", "read"} /\ phase[r2] \in {"locked", "read"}) => cur[r1] # cur[r2]
\* after the join the shared watch lists are exactly what the sequential loop produces
SeqHas(r) == (init[2][r] \cup Vars) \ {v \in init[2][r] : v \in cancel[r]}
ResultEqualsSequential == AllDone => \A v \in Vars : watch[v] = {r \in Rows : v \in SeqHas(r)}
WatchConsistent == AllDone => \A v \in Vars : watch[v] = {r \in Rows : v \in has[r]}
Terminates == <>AllDone
=============================================================================
