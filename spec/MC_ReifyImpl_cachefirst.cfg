SPECIFICATION Spec
CONSTANTS
  NU = 3
  MaxCalls = 2
  MaxUnits = 1
  MaxLen = 0
  ArgPool <- PoolDup
  Kinds = {"amo", "exo"}
  NestRet = FALSE
  WithConsts = FALSE
  UnitsAfter = TRUE
  CacheFirstBug <- Yes
INVARIANT TypeOK
INVARIANT ReifiedMeaning
INVARIANT CacheSound
PROPERTY Conservative
PROPERTY NotExcluding
CHECK_DEADLOCK FALSE
