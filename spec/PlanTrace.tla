------------------------------ MODULE PlanTrace ------------------------------
(* Trace specification for the planner-level properties (C01, C03 - C06, and the            *)
(* "no abnormal termination" part of C18): the trace is the concatenation of the outputs of *)
(* harness/plan_driver.cpp on a list of problems. Every problem contributes a "verdict"     *)
(* line, a "solution" line when solve() returned true, and a "done" line; an "abort" line   *)
(* (crash, assertion, uncaught exception) is never accepted, "timeout" / "wide" / "error"   *)
(* lines are accepted and counted by the runner.                                            *)
EXTENDS Plan, Json, IOUtils

VARIABLES l, solved, verdicts, expects
vars == <<l, solved, verdicts, expects>>

Trace == ndJsonDeserialize(IOEnv.TRACE)
PROP == IF "VPROP" \in DOMAIN IOEnv THEN IOEnv.VPROP ELSE "ALL"
Chk(ps, name, cond) ==
  IF PROP = "ALL" \/ PROP \in ps
  THEN IF cond THEN TRUE ELSE PrintT(<<"CONTRACT", name, l>>) /\ FALSE
  ELSE TRUE

SolutionOK(sol) ==
  /\ Chk({"C01"}, "ClausesHold", ClausesHold(sol) = TRUE)
  /\ Chk({"C01"}, "AssertsHold", AssertsHold(sol) = TRUE)
  /\ Chk({"C01"}, "BoolDefsHold", BoolDefsHold(sol) = TRUE)
  /\ Chk({"C01"}, "LraDefsHold", LraDefsHold(sol) = TRUE)
  /\ Chk({"C01"}, "RdlDefsHold", RdlDefsHold(sol) = TRUE)
  /\ Chk({"C01", "C16"}, "OpsHold", OpsHold(sol) = TRUE)
  /\ Chk({"C03"}, "Justified", Justified(sol) = TRUE)
  /\ Chk({"C03"}, "SupportAcyclic", SupportAcyclic(sol) = TRUE)
  /\ Chk({"C04"}, "NoSvOverlap", NoSvOverlap(sol) = TRUE)
  /\ Chk({"C04"}, "SvTimelineAgrees", SvTimelineAgrees(sol) = TRUE)
  /\ Chk({"C05"}, "RrWithinCapacity", RrWithinCapacity(sol) = TRUE)
  /\ Chk({"C05"}, "RrTimelineAgrees", RrTimelineAgrees(sol) = TRUE)
  /\ Chk({"C06"}, "TemporallyWellFormed", TemporallyWellFormed(sol) = TRUE)

\* C16: the value a generated program must give to one of its top-level variables ("expect" lines precede the problem)
ExpectsFor(name) == {x \in expects : x.name = name}
TopItem(sol, var) == (CHOOSE p \in SeqRange(sol.tops) : p[1] = var)[2]
ExpectedValueOK(sol) ==
  \A x \in ExpectsFor(sol.name) :
     CASE x.kind = "arith" -> IREqv(ArithValue(sol, TopItem(sol, x.var)), IROf(x.value))
       [] x.kind = "bool" -> BoolValue(sol, TopItem(sol, x.var)) = x.bvalue
       [] OTHER -> TRUE
\* C17: object variables. Names of the top-level instances denoted by a set of item ids
NamesOf(sol, ids) == {p[1] : p \in {q \in SeqRange(sol.tops) : q[2] \in ids}}
InitialDomain(sol, id) ==
  LET it == Item(sol, id)
  IN IF it.t = "v" THEN SeqRange(OvVar(sol, it.ev).vals) ELSE {id}
ObjExpectOK(sol) ==
  \A x \in {y \in ExpectsFor(sol.name) : y.kind = "obj"} :
     LET v == TopItem(sol, x.var)
     IN /\ Chk({"C17"}, "DomainAtDeclaration", NamesOf(sol, InitialDomain(sol, v)) \ {x.var} = SeqRange(x.dom0))
        /\ Chk({"C17"}, "ChoiceRespectsConstraints",
               /\ Cardinality(Domain(sol, v)) = 1
               /\ (NamesOf(sol, Domain(sol, v)) \ {x.var}) \subseteq SeqRange(x.allowed))

Init == l = 1 /\ solved = 0 /\ verdicts = 0 /\ expects = {}

Next ==
  /\ l <= Len(Trace)
  /\ l' = l + 1
  /\ LET ev == Trace[l]
     IN CASE ev.e = "expect" -> expects' = expects \cup {ev} /\ UNCHANGED <<solved, verdicts>>
          [] ev.e = "verdict" ->
               /\ Chk({"C16"}, "ValidProgramSolved",
                      (\E x \in ExpectsFor(ev.name) : x.kind \in {"arith", "bool"}) => ev.verdict = "solved")
               /\ Chk({"C17"}, "SolvableIffSomeInstanceFits",
                      \A x \in {y \in ExpectsFor(ev.name) : y.kind = "obj"} : (x.sat = 1) = (ev.verdict = "solved"))
               /\ verdicts' = verdicts + 1 /\ UNCHANGED <<solved, expects>>
          [] ev.e = "solution" ->
               /\ SolutionOK(ev)
               /\ Chk({"C16", "C17"}, "ExpectedValue", ExpectedValueOK(ev) = TRUE)
               /\ ObjExpectOK(ev)
               /\ solved' = solved + 1 /\ UNCHANGED <<verdicts, expects>>
          [] ev.e \in {"done", "timeout", "wide", "error"} -> UNCHANGED <<solved, verdicts, expects>>
          [] ev.e = "abort" -> Chk({"C18", "C01", "C02", "C03", "C04", "C05", "C06", "C16", "C17"}, "NoAbort", FALSE) /\ UNCHANGED <<solved, verdicts, expects>>

Spec == Init /\ [][Next]_vars

Accepted ==
  /\ PrintT(<<"MATCHED", TLCGet("stats").diameter - 1, Len(Trace)>>)
  /\ TLCGet("stats").diameter - 1 = Len(Trace)
=============================================================================
