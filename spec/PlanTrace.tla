------------------------------ MODULE PlanTrace ------------------------------
(* Trace specification for the planner-level properties (C01, C03 - C06, and the            *)
(* "no abnormal termination" part of C18): the trace is the concatenation of the outputs of *)
(* harness/plan_driver.cpp on a list of problems. Every problem contributes a "verdict"     *)
(* line, a "solution" line when solve() returned true, and a "done" line; an "abort" line   *)
(* (crash, assertion, uncaught exception) is never accepted, "timeout" / "wide" / "error"   *)
(* lines are accepted and counted by the runner.                                            *)
EXTENDS Plan, Json, IOUtils

VARIABLES l, solved, verdicts
vars == <<l, solved, verdicts>>

Trace == ndJsonDeserialize(IOEnv.TRACE)
PROP == IF "VPROP" \in DOMAIN IOEnv THEN IOEnv.VPROP ELSE "ALL"
Chk(ps, name, cond) ==
  IF PROP = "ALL" \/ PROP \in ps
  THEN IF cond THEN TRUE ELSE PrintT(<<"CONTRACT", name, l>>) /\ FALSE
  ELSE TRUE

SolutionOK(sol) ==
  /\ Chk({"C01"}, "ClausesHold", ClausesHold(sol) = TRUE)
  /\ Chk({"C01"}, "AssertsHold", AssertsHold(sol) = TRUE)
  /\ Chk({"C01"}, "BoolDefsHold", BoolDefsHold(sol) = TRUE)
  /\ Chk({"C01"}, "LraDefsHold", LraDefsHold(sol) = TRUE)
  /\ Chk({"C01"}, "RdlDefsHold", RdlDefsHold(sol) = TRUE)
  /\ Chk({"C01", "C16"}, "OpsHold", OpsHold(sol) = TRUE)
  /\ Chk({"C03"}, "Justified", Justified(sol) = TRUE)
  /\ Chk({"C03"}, "SupportAcyclic", SupportAcyclic(sol) = TRUE)
  /\ Chk({"C04"}, "NoSvOverlap", NoSvOverlap(sol) = TRUE)
  /\ Chk({"C04"}, "SvTimelineAgrees", SvTimelineAgrees(sol) = TRUE)
  /\ Chk({"C05"}, "RrWithinCapacity", RrWithinCapacity(sol) = TRUE)
  /\ Chk({"C05"}, "RrTimelineAgrees", RrTimelineAgrees(sol) = TRUE)
  /\ Chk({"C06"}, "TemporallyWellFormed", TemporallyWellFormed(sol) = TRUE)

Init == l = 1 /\ solved = 0 /\ verdicts = 0

Next ==
  /\ l <= Len(Trace)
  /\ l' = l + 1
  /\ LET ev == Trace[l]
     IN CASE ev.e = "verdict" -> verdicts' = verdicts + 1 /\ UNCHANGED solved
          [] ev.e = "solution" -> SolutionOK(ev) /\ solved' = solved + 1 /\ UNCHANGED verdicts
          [] ev.e \in {"done", "timeout", "wide", "error"} -> UNCHANGED <<solved, verdicts>>
          [] ev.e = "abort" -> Chk({"C18", "C01", "C03", "C04", "C05", "C06"}, "NoAbort", FALSE) /\ UNCHANGED <<solved, verdicts>>

Spec == Init /\ [][Next]_vars

Accepted ==
  /\ PrintT(<<"MATCHED", TLCGet("stats").diameter - 1, Len(Trace)>>)
  /\ TLCGet("stats").diameter - 1 = Len(Trace)
=============================================================================
