------------------------------ MODULE PlanTrace ------------------------------
(* Trace specification for the planner-level properties (C01, C03 - C06, and the            *)
(* "no abnormal termination" part of C18): the trace is the concatenation of the outputs of *)
(* harness/plan_driver.cpp on a list of problems. Every problem contributes a "verdict"     *)
(* line, a "solution" line when solve() returned true, and a "done" line; an "abort" line   *)
(* (crash, assertion, uncaught exception) is never accepted, "timeout" / "wide" / "error"   *)
(* lines are accepted and counted by the runner.                                            *)
EXTENDS Plan, Json, IOUtils

VARIABLES l, solved, verdicts, expects,
          xs      \* C19: state of the execution being replayed (see the executor section below)
vars == <<l, solved, verdicts, expects, xs>>

Trace == ndJsonDeserialize(IOEnv.TRACE)
PROP == IF "VPROP" \in DOMAIN IOEnv THEN IOEnv.VPROP ELSE "ALL"
Chk(ps, name, cond) ==
  IF PROP = "ALL" \/ PROP \in ps
  THEN IF cond THEN TRUE ELSE PrintT(<<"CONTRACT", name, l>>) /\ FALSE
  ELSE TRUE

SolutionOK(sol) ==
  /\ Chk({"C01", "C19"}, "ClausesHold", ClausesHold(sol) = TRUE)
  /\ Chk({"C01", "C19"}, "AssertsHold", AssertsHold(sol) = TRUE)
  /\ Chk({"C01"}, "BoolDefsHold", BoolDefsHold(sol) = TRUE)
  /\ Chk({"C01", "C19"}, "LraDefsHold", LraDefsHold(sol) = TRUE)
  /\ Chk({"C01"}, "RdlDefsHold", RdlDefsHold(sol) = TRUE)
  /\ Chk({"C01", "C16"}, "OpsHold", OpsHold(sol) = TRUE)
  /\ Chk({"C03"}, "Justified", Justified(sol) = TRUE)
  /\ Chk({"C03"}, "SupportAcyclic", SupportAcyclic(sol) = TRUE)
  /\ Chk({"C04", "C19"}, "NoSvOverlap", NoSvOverlap(sol) = TRUE)
  /\ Chk({"C04"}, "SvTimelineAgrees", SvTimelineAgrees(sol) = TRUE)
  /\ Chk({"C05", "C19"}, "RrWithinCapacity", RrWithinCapacity(sol) = TRUE)
  /\ Chk({"C05"}, "RrTimelineAgrees", RrTimelineAgrees(sol) = TRUE)
  /\ Chk({"C06", "C19"}, "TemporallyWellFormed", TemporallyWellFormed(sol) = TRUE)

\* C16: the value a generated program must give to one of its top-level variables ("expect" lines precede the problem)
ExpectsFor(name) == {x \in expects : x.name = name}
TopItem(sol, var) == (CHOOSE p \in SeqRange(sol.tops) : p[1] = var)[2]
HasTop(sol, var) == \E p \in SeqRange(sol.tops) : p[1] = var
ExpectedValueOK(sol) ==
  \A x \in {y \in ExpectsFor(sol.name) : HasTop(sol, y.var)} :      \* (a program read in several parts: once the variable exists)
     CASE x.kind = "arith" -> IREqv(ArithValue(sol, TopItem(sol, x.var)), IROf(x.value))
       [] x.kind = "bool" -> BoolValue(sol, TopItem(sol, x.var)) = x.bvalue
       [] OTHER -> TRUE
\* C01: a top-level constraint 'var >= value' on a fresh variable, which the generators append to every part of a problem
\* that is read after a solve(): once the variable exists the reported solution must satisfy the constraint (a statement
\* read at top level holds unconditionally, whatever the solver did before)
SentinelsHold(sol) ==
  \A x \in {y \in ExpectsFor(sol.name) : y.kind = "sentinel"} :
     (\E p \in SeqRange(sol.tops) : p[1] = x.var) => IRGe(ArithValue(sol, TopItem(sol, x.var)), IROf(x.value))
\* C17: object variables. Names of the top-level instances denoted by a set of item ids
NamesOf(sol, ids) == {p[1] : p \in {q \in SeqRange(sol.tops) : q[2] \in ids}}
InitialDomain(sol, id) ==
  LET it == Item(sol, id)
  IN IF it.t = "v" THEN SeqRange(OvVar(sol, it.ev).vals) ELSE {id}
ObjExpectOK(sol) ==
  \A x \in {y \in ExpectsFor(sol.name) : y.kind = "obj"} :
     LET v == TopItem(sol, x.var)
     IN /\ Chk({"C17", "C14"}, "DomainAtDeclaration", NamesOf(sol, InitialDomain(sol, v)) \ {x.var} = SeqRange(x.dom0))
        /\ Chk({"C17", "C14"}, "ChoiceRespectsConstraints",
               /\ Cardinality(Domain(sol, v)) = 1
               /\ (NamesOf(sol, Domain(sol, v)) \ {x.var}) \subseteq SeqRange(x.allowed))

\* ---- C19: the executor ---------------------------------------------------------------------------------------------------------
\* xs: [time (Rat), started / ended (sets of atom ids), sAt / eAt (the values frozen when they started / ended),
\*      reqS / reqE (atoms the client asked to delay during the current tick() call), plan (last projection)]
\*      cand (the atoms of the last "starting" callback with their planned times), need (for every atom whose start the
\*      client delayed and that has not started yet: the time before which it must not be planned any more)
X0 == [time |-> Zero, started |-> {}, ended |-> {}, sAt |-> << >>, eAt |-> << >>, reqS |-> {}, reqE |-> {}, plan |-> << >>,
       cand |-> << >>, need |-> << >>]
XIds(ps) == {ps[i][1] : i \in DOMAIN ps}
XVal(ps, id) == (CHOOSE i \in DOMAIN ps : ps[i][1] = id)
XStep(ev) ==
  CASE ev.e = "x_plan" ->
         /\ Chk({"C19"}, "NothingStartedMoved",
                \A i \in DOMAIN ev.atoms :
                   LET a == ev.atoms[i]
                   IN /\ a.id \in xs.started => IREqv(a.s, xs.sAt[a.id])
                      /\ a.id \in xs.ended => IREqv(a.e, xs.eAt[a.id]))
         /\ Chk({"C19"}, "PlanTime", ev.t = xs.time)
         \* a start that the client delayed is not planned earlier than the delayed time in any later plan (delays, failures
         \* and re-planning included), until the atom starts
         /\ Chk({"C19"}, "DelayedStartKept",
                \A i \in DOMAIN ev.atoms :
                   LET a == ev.atoms[i]
                   IN (a.id \in DOMAIN xs.need /\ a.id \notin xs.started) => IRGe(a.s, xs.need[a.id]))
         /\ xs' = [xs EXCEPT !.plan = ev.atoms]
    [] ev.e = "x_call_tick" -> xs' = [xs EXCEPT !.reqS = {}, !.reqE = {}]
    [] ev.e = "x_starting" -> xs' = [xs EXCEPT !.cand = ev.atoms]
    [] ev.e = "x_ending" -> UNCHANGED xs
    [] ev.e = "x_dont_start" ->
         xs' = [xs EXCEPT !.reqS = xs.reqS \cup XIds(ev.req),
                          !.need = [id \in (DOMAIN xs.need) \cup {x \in XIds(ev.req) : x \in XIds(xs.cand)} |->
                                      IF id \in XIds(ev.req) /\ id \in XIds(xs.cand)
                                      THEN IRAdd(xs.cand[XVal(xs.cand, id)][2], IROf(<<ev.req[XVal(ev.req, id)][2], 1>>))
                                      ELSE xs.need[id]]]
    [] ev.e = "x_dont_end" -> xs' = [xs EXCEPT !.reqE = xs.reqE \cup XIds(ev.req)]
    [] ev.e = "x_start" ->
         /\ Chk({"C19"}, "StartedOnce", XIds(ev.atoms) \cap xs.started = {})
         /\ Chk({"C19"}, "NotStartedBeforeItsTime", \A i \in DOMAIN ev.atoms : IRLe(ev.atoms[i][2], IROf(xs.time)))
         /\ Chk({"C19"}, "NotStartedWhenDelayed", XIds(ev.atoms) \cap xs.reqS = {})
         /\ xs' = [xs EXCEPT !.started = xs.started \cup XIds(ev.atoms),
                             !.sAt = [id \in (DOMAIN xs.sAt) \cup XIds(ev.atoms) |->
                                        IF id \in XIds(ev.atoms) THEN ev.atoms[XVal(ev.atoms, id)][2] ELSE xs.sAt[id]]]
    [] ev.e = "x_end" ->
         /\ Chk({"C19"}, "EndedOnce", XIds(ev.atoms) \cap xs.ended = {})
         /\ Chk({"C19"}, "StartedBeforeEnded", XIds(ev.atoms) \subseteq xs.started)
         /\ Chk({"C19"}, "NotEndedBeforeItsTime", \A i \in DOMAIN ev.atoms : IRLe(ev.atoms[i][2], IROf(xs.time)))
         /\ Chk({"C19"}, "NotEndedWhenDelayed", XIds(ev.atoms) \cap xs.reqE = {})
         /\ xs' = [xs EXCEPT !.ended = xs.ended \cup XIds(ev.atoms),
                             !.eAt = [id \in (DOMAIN xs.eAt) \cup XIds(ev.atoms) |->
                                        IF id \in XIds(ev.atoms) THEN ev.atoms[XVal(ev.atoms, id)][2] ELSE xs.eAt[id]]]
    [] ev.e = "x_tick" ->
         /\ Chk({"C19"}, "TimeAdvancesByOneUnit", ev.time = Add(xs.time, One))
         /\ xs' = [xs EXCEPT !.time = ev.time]
    [] ev.e = "x_failure" ->      \* the failed atoms leave the plan: they are no longer tracked
         xs' = [xs EXCEPT !.started = xs.started \ SeqRange(ev.atoms), !.ended = xs.ended \ SeqRange(ev.atoms),
                          !.need = [id \in (DOMAIN xs.need) \ SeqRange(ev.atoms) |-> xs.need[id]]]
    [] ev.e = "x_exception" -> UNCHANGED xs
    [] ev.e = "x_done" ->
         /\ Chk({"C19"}, "EverythingDispatched",
                ev.alive = 1 =>
                  \A i \in DOMAIN xs.plan :
                     LET a == xs.plan[i]
                     IN /\ IRLt(a.s, IROf(xs.time)) => a.id \in xs.started
                        /\ IRLt(a.e, IROf(xs.time)) => a.id \in xs.ended)
         /\ UNCHANGED xs

Init == l = 1 /\ solved = 0 /\ verdicts = 0 /\ expects = {} /\ xs = X0

Next ==
  /\ l <= Len(Trace)
  /\ l' = l + 1
  /\ LET ev == Trace[l]
     IN CASE ev.e \in {"x_plan", "x_call_tick", "x_starting", "x_ending", "x_dont_start", "x_dont_end", "x_start", "x_end",
                        "x_tick", "x_failure", "x_exception", "x_done"} -> XStep(ev) /\ UNCHANGED <<solved, verdicts, expects>>
          [] ev.e = "expect" -> expects' = expects \cup {ev} /\ UNCHANGED <<solved, verdicts, xs>>
          [] ev.e = "verdict" ->
               /\ Chk({"C16", "C17"}, "ValidProgramSolved",
                      (\E x \in ExpectsFor(ev.name) : x.kind \in {"arith", "bool"}) => ev.verdict = "solved")
               \* a problem that has no solution by construction (the generator knows why) is not answered "solved"
               /\ Chk({"C01", "C02", "C03"}, "KnownUnsolvableNotSolved",
                      (\E x \in ExpectsFor(ev.name) : x.kind = "unsolvable") => ev.verdict # "solved")
               /\ Chk({"C17", "C14"}, "SolvableIffSomeInstanceFits",
                      \A x \in {y \in ExpectsFor(ev.name) : y.kind \in {"obj", "verdict"}} : (x.sat = 1) = (ev.verdict = "solved"))
               /\ verdicts' = verdicts + 1 /\ xs' = X0 /\ UNCHANGED <<solved, expects>>
          [] ev.e = "solution" ->
               /\ SolutionOK(ev)
               /\ Chk({"C16", "C17"}, "ExpectedValue", ExpectedValueOK(ev) = TRUE)
               /\ Chk({"C01", "C02", "C03", "C04", "C05", "C06"}, "TopLevelConstraintHolds", SentinelsHold(ev) = TRUE)
               /\ ObjExpectOK(ev)
               /\ solved' = solved + 1 /\ UNCHANGED <<verdicts, expects, xs>>
          [] ev.e \in {"done", "timeout", "wide", "error", "rejected"} -> UNCHANGED <<solved, verdicts, expects, xs>>
          [] ev.e \in {"abort", "garbage"} -> Chk({"C18", "C01", "C02", "C03", "C04", "C05", "C06", "C16", "C17", "C19"}, "NoAbort", FALSE) /\ UNCHANGED <<solved, verdicts, expects, xs>>

Spec == Init /\ [][Next]_vars

Accepted ==
  /\ PrintT(<<"MATCHED", TLCGet("stats").diameter - 1, Len(Trace)>>)
  /\ TLCGet("stats").diameter - 1 = Len(Trace)
=============================================================================
