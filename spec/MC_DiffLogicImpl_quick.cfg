SPECIFICATION Spec
CONSTANTS
  N = 3
  Atoms <- Atoms4
  MaxLevel = 2
  Scale = 1
  SavePredBug = FALSE
INVARIANT DistExact
INVARIANT ConflictIffNegCycle
INVARIANT PopRestoresDists
INVARIANT PopRestoresConstrs
INVARIANT PopRestoresPreds
INVARIANT ExplanationsValid
CHECK_DEADLOCK FALSE
