----------------------------- MODULE MC_LraImpl -----------------------------
EXTENDS LraImpl, LraSem

\* ---- the meaning of the literals, decided by Fourier-Motzkin (LraSem) ---------------------------------------------------
ExprOf(x) == [v |-> [z \in DOMAIN PlainRow(x) |-> RatOf(PlainRow(x)[z])], k |-> Zero]
UpperCon(x, b) == Con(LSubK(ExprOf(x), b[1]), IsNeg(b[2]))                    \* expr <= c + k eps
LowerCon(x, b) == Con(LAddK(LNeg(ExprOf(x)), b[1]), IsPos(b[2]))             \* expr >= c + k eps
LitCon(p) ==       \* the constraint that literal p (true) stands for
  LET a == Atoms[LitAbs(p)]
  IN IF p > 0 THEN (IF a.o = "leq" THEN UpperCon(a.x, a.v) ELSE LowerCon(a.x, a.v))
     ELSE (IF a.o = "leq" THEN LowerCon(a.x, IRAdd(a.v, Eps)) ELSE UpperCon(a.x, IRSub(a.v, Eps)))
\* a clause is valid in the theory iff its literals cannot all be false
ClauseValid(cls) == Infeasible({LitCon(-p) : p \in cls \ {0}})
LemmasValid == lastOp[1] \in {"assert", "conflict"} => \A cls \in lastOp[3] : ClauseValid(cls)
ConflictValid == lastOp[1] = "conflict" => ClauseValid(lastOp[4])
\* the literals of a conflict explanation are all false when it is raised (the sat core analyses it as a falsified clause)
ConflictFalsified ==
  lastOp[1] = "conflict" => \A p \in lastOp[4] \ {0} : LET tv == lastOp[5][LitAbs(p)] IN (p > 0 /\ tv = "F") \/ (p < 0 /\ tv = "T")
\* the literals assigned by lemmas follow from the others: the set of true literals is feasible whenever no conflict is raised
AssertedFeasible == lastOp[1] = "assert" => Feasible({LitCon(p) : p \in UNION {TrueLitsOn(z) : z \in V}})

A(x, o, c, k) == [x |-> x, o |-> o, v |-> <<RatOf(c), RatOf(k)>>]
\* x0 <= 5, x0 <= 3, x0 >= 2, x1 <= 1, x0 + x1 >= 6 (tight against 5 + 1), x0 + x1 < 2
RowsA == << [z \in {0, 1} |-> 1] >>
AtomsA == << A(0, "leq", 5, 0), A(0, "leq", 3, 0), A(0, "geq", 2, 0), A(1, "leq", 1, 0), A(2, "geq", 6, 0), A(2, "leq", 2, -1) >>
\* a small instance for the exhaustive check with the lemma database as part of the state
AtomsS == << A(0, "leq", 3, 0), A(1, "leq", 1, 0), A(2, "geq", 4, 0), A(2, "leq", 2, -1), A(0, "geq", 3, 0) >>
\* two rows sharing variables: x0 + x1 and x0 - x1 (pivots create fractions)
RowsB == << [z \in {0, 1} |-> 1], [z \in {0, 1} |-> IF z = 0 THEN 1 ELSE -1] >>
AtomsB == << A(2, "geq", 4, 0), A(3, "leq", 0, 0), A(0, "leq", 1, 0), A(1, "leq", 2, 0), A(3, "geq", 1, 0), A(1, "geq", 3, 0) >>
=============================================================================
