SPECIFICATION Spec
CONSTANTS
  NX = 2
  Rows <- RowsA
  Atoms <- AtomsS
  MaxLevel = 2
  WithPairs = FALSE
  ReasonBug = FALSE
INVARIANT RowsEquivalent
INVARIANT BasicDisjoint
INVARIANT ValuesSatisfyRows
INVARIANT ValuesWithinBounds
INVARIANT NoCycling
INVARIANT BoundsExact
INVARIANT ReasonsValid
INVARIANT PopRestores
INVARIANT LemmasValid
INVARIANT ConflictValid
INVARIANT ConflictFalsified
INVARIANT AssertedFeasible
VIEW ViewNoLemmas
CHECK_DEADLOCK FALSE
