SPECIFICATION Spec
CONSTANT MaxCons = 3
INVARIANT Agree
INVARIANT Monotone
CHECK_DEADLOCK FALSE
