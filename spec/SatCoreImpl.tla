---------------------------- MODULE SatCoreImpl ----------------------------
(* Implementation-shaped model of smt::sat_core and smt::clause (C07, C08): the clause database with the order of   *)
(* the literals inside every clause (the first two are the watched ones), the watch lists with their order, the      *)
(* assignment with levels and reasons, the trail with its level separators, the decisions and the propagation queue. *)
(* Every public call is one action that runs the code's algorithm to its return: new_clause (sort, filter, unit /    *)
(* watch registration), assume, pop, next, propagate (queue loop, clause::propagate with its three outcomes,         *)
(* conflict -> analyze (first UIP, as written) -> backjump -> record), simplify_db (clause::simplify / remove).      *)
(* TLC checks, for every history over a fixed pool of clauses: the two-watched-literal invariant, completeness of    *)
(* unit propagation at every return, soundness of every assigned literal and of every learnt clause with respect to  *)
(* the clauses given (by enumeration of all assignments), "false only if unsatisfiable", exact undo by pop.          *)
(* spec/SatCoreGen.tla prints one test per transition; tools/satreplay.py replays them on the library.               *)
EXTENDS Integers, Sequences, FiniteSets, TLC

CONSTANTS NV,        \* propositional variables 1..NV (the library's constant variable 0 is not modelled)
          Pool,      \* sequence of clauses (sequences of non-zero integers: v / -v) that new_clause may be given
          MaxLevel,
          MaxLearnt, \* bound on the number of recorded no-goods (state constraint)
          CheckPool, \* the sequences of literals check() may be given
          LoseWatchBug \* TRUE: clause::propagate returns on a conflict before re-registering its watch (a seeded mistake)

Vars == 1..NV
Lits == {l \in (-NV)..NV : l # 0}
Abs(l) == IF l < 0 THEN -l ELSE l
Neg(l) == -l

VARIABLES cl,     \* clause id -> sequence of literals (<<>>: removed)
          w,      \* literal -> sequence of clause ids visited when the literal becomes true
          val, lvl, rsn, tr, lim, dec, q,
          fresh,  \* for every standing decision: was its literal unassigned when it was assumed (ghost; precondition of next)
          orig,   \* the set of clauses (as sets of literals) given through new_clause: ghost, for the soundness checks
          given,  \* which clauses of the pool were given already (each at most once)
          dead,   \* a call answered false at root level
          lastOp
vars == <<cl, w, val, lvl, rsn, tr, lim, dec, q, fresh, orig, given, dead, lastOp>>

St == [cl |-> cl, w |-> w, val |-> val, lvl |-> lvl, rsn |-> rsn, tr |-> tr, lim |-> lim, dec |-> dec, q |-> q]

Value(S, l) == IF S.val[Abs(l)] = "U" THEN "U" ELSE IF (S.val[Abs(l)] = "T") = (l > 0) THEN "T" ELSE "F"
DL(S) == Len(S.lim)
Swap(s, i, j) == [s EXCEPT ![i] = s[j], ![j] = s[i]]

\* sat_core::enqueue
Enqueue(S, p, c) ==
  IF Value(S, p) # "U" THEN [ok |-> Value(S, p) = "T", S |-> S]
  ELSE [ok |-> TRUE,
        S |-> [S EXCEPT !.val[Abs(p)] = IF p > 0 THEN "T" ELSE "F", !.lvl[Abs(p)] = DL(S), !.rsn[Abs(p)] = c,
                        !.tr = Append(@, p), !.q = Append(@, p)]]

\* clause::propagate(p): p became true, the clause watches its negation
ClausePropagate(S, ci, p) ==
  LET l0 == S.cl[ci]
      l1 == IF Abs(l0[1]) = Abs(p) THEN Swap(l0, 1, 2) ELSE l0
      S1 == [S EXCEPT !.cl[ci] = l1]
  IN IF Value(S1, l1[1]) = "T"
     THEN [ok |-> TRUE, S |-> [S1 EXCEPT !.w[p] = Append(@, ci)]]
     ELSE LET cand == {i \in 2..Len(l1) : Value(S1, l1[i]) # "F"}
          IN IF cand # {}
             THEN LET i == CHOOSE x \in cand : \A y \in cand : x <= y
                      l2 == Swap(l1, 2, i)
                  IN [ok |-> TRUE, S |-> [S1 EXCEPT !.cl[ci] = l2, !.w[Neg(l2[2])] = Append(@, ci)]]
             ELSE IF LoseWatchBug
                  THEN LET e == Enqueue(S1, l1[1], ci)
                       IN IF e.ok THEN [ok |-> TRUE, S |-> [e.S EXCEPT !.w[p] = Append(@, ci)]] ELSE [ok |-> FALSE, S |-> e.S]
                  ELSE Enqueue([S1 EXCEPT !.w[p] = Append(@, ci)], l1[1], ci)

\* sat_core::pop_one / pop
PopOne(S) ==
  LET v == Abs(S.tr[Len(S.tr)])
  IN [S EXCEPT !.val[v] = "U", !.lvl[v] = 0, !.rsn[v] = 0, !.tr = SubSeq(@, 1, Len(@) - 1)]
RECURSIVE PopTrailTo(_, _)
PopTrailTo(S, n) == IF Len(S.tr) <= n THEN S ELSE PopTrailTo(PopOne(S), n)
PopLevel(S) ==
  LET S1 == PopTrailTo(S, S.lim[Len(S.lim)])
  IN [S1 EXCEPT !.lim = SubSeq(@, 1, Len(@) - 1), !.dec = SubSeq(@, 1, Len(@) - 1)]
RECURSIVE PopTo(_, _)
PopTo(S, bt) == IF DL(S) <= bt THEN S ELSE PopTo(PopLevel(S), bt)

\* clause::get_reason
ReasonOf(S, ci, p) ==      \* p = 0: the whole (conflicting) clause
  LET ls == S.cl[ci] IN [i \in 1..(Len(ls) - (IF p = 0 THEN 0 ELSE 1)) |-> Neg(ls[i + (IF p = 0 THEN 0 ELSE 1)])]

\* sat_core::analyze: the state is consumed (the trail of the current level is popped while walking back)
\* acc = [S, seen, counter, learnt (without the asserting literal), bt, pr (current reason), p]
RECURSIVE ScanReason(_, _)
ScanReason(acc, i) ==
  IF i > Len(acc.pr) THEN acc
  ELSE LET qq == acc.pr[i]
           v == Abs(qq)
       IN IF v \in acc.seen THEN ScanReason(acc, i + 1)
          ELSE LET a1 == [acc EXCEPT !.seen = @ \cup {v}]
                   a2 == IF acc.S.lvl[v] = DL(acc.S) THEN [a1 EXCEPT !.counter = @ + 1]
                         ELSE IF acc.S.lvl[v] > 0
                              THEN [a1 EXCEPT !.learnt = Append(@, Neg(qq)), !.bt = IF acc.S.lvl[v] > @ THEN acc.S.lvl[v] ELSE @]
                              ELSE a1
               IN ScanReason(a2, i + 1)
RECURSIVE WalkBack(_)
WalkBack(acc) ==           \* do { p = trail.back(); if (reason) p_reason = ...; pop_one(); } while (!seen.count(var(p)))
  LET p == acc.S.tr[Len(acc.S.tr)]
      r == acc.S.rsn[Abs(p)]
      pr == IF r # 0 THEN ReasonOf(acc.S, r, p) ELSE acc.pr
      a1 == [acc EXCEPT !.p = p, !.pr = pr, !.S = PopOne(acc.S)]
  IN IF Abs(p) \in acc.seen THEN a1 ELSE WalkBack(a1)
RECURSIVE AnalyzeLoop(_)
AnalyzeLoop(acc) ==
  LET a1 == ScanReason(acc, 1)
      a2 == WalkBack(a1)
      a3 == [a2 EXCEPT !.counter = @ - 1]
  IN IF a3.counter > 0 THEN AnalyzeLoop(a3) ELSE a3
Analyze(S, ci) ==
  LET a == AnalyzeLoop([S |-> S, seen |-> {}, counter |-> 0, learnt |-> <<>>, bt |-> 0, pr |-> ReasonOf(S, ci, 0), p |-> 0])
  IN [S |-> a.S, learnt |-> <<Neg(a.p)>> \o a.learnt, bt |-> a.bt]

\* stable insertion sort of lits[2..] by descending level (std::sort on a handful of elements)
RECURSIVE InsertByLevel(_, _, _)
InsertByLevel(S, sorted, x) ==
  IF sorted = <<>> THEN <<x>>
  ELSE IF S.lvl[Abs(Head(sorted))] >= S.lvl[Abs(x)] THEN <<Head(sorted)>> \o InsertByLevel(S, Tail(sorted), x)
       ELSE <<x>> \o sorted
RECURSIVE SortByLevel(_, _, _)
SortByLevel(S, rest, acc) == IF rest = <<>> THEN acc ELSE SortByLevel(S, Tail(rest), InsertByLevel(S, acc, Head(rest)))

\* clause::new_clause: appended to the database and registered on its first two literals
AddClause(S, ls) ==
  LET ci == Len(S.cl) + 1
      S1 == [S EXCEPT !.cl = Append(@, ls)]
      S2 == [S1 EXCEPT !.w[Neg(ls[1])] = Append(@, ci)]
  IN [S |-> [S2 EXCEPT !.w[Neg(ls[2])] = Append(@, ci)], ci |-> ci]
\* sat_core::record
Record(S, ls) ==
  IF Len(ls) = 1 THEN Enqueue(S, ls[1], 0).S
  ELSE LET sorted == <<ls[1]>> \o SortByLevel(S, Tail(ls), <<>>)
           a == AddClause(S, sorted)
       IN Enqueue(a.S, sorted[1], a.ci).S

\* sat_core::propagate (no theories): returns [ok, S, learnt (sequence of the recorded no-goods)]
RECURSIVE Prop(_, _)
RECURSIVE Visit(_, _, _, _, _)
Prop(S, learnt) ==
  IF S.q = <<>> THEN [ok |-> TRUE, S |-> S, learnt |-> learnt]
  ELSE LET p == Head(S.q)
           tmp == S.w[p]
       IN Visit([S EXCEPT !.q = Tail(@), !.w[p] = <<>>], p, tmp, 1, learnt)
Visit(S, p, tmp, i, learnt) ==
  IF i > Len(tmp) THEN Prop(S, learnt)
  ELSE LET r == ClausePropagate(S, tmp[i], p)
       IN IF r.ok THEN Visit(r.S, p, tmp, i + 1, learnt)
          ELSE LET S3 == [r.S EXCEPT !.w[p] = @ \o SubSeq(tmp, i + 1, Len(tmp)), !.q = <<>>]
               IN IF S3.lim = <<>> THEN [ok |-> FALSE, S |-> S3, learnt |-> learnt]
                  ELSE LET a == Analyze(S3, tmp[i])
                           S4 == PopTo(a.S, a.bt)
                       IN Prop(Record(S4, a.learnt), Append(learnt, a.learnt))

\* after an assume that failed at once (its literal was false already) the decision stands: the caller undoes it with pop
Usable == ~dead /\ ~(lastOp[1] = "assume" /\ lastOp[3] = FALSE)

\* ---- the public calls ------------------------------------------------------------------------------------------------------
Commit(S) ==
  /\ fresh' = IF Len(S.lim) > Len(fresh) THEN Append(fresh, Value(St, S.dec[Len(S.dec)]) = "U") ELSE SubSeq(fresh, 1, Len(S.lim))
  /\ cl' = S.cl /\ w' = S.w /\ val' = S.val /\ lvl' = S.lvl /\ rsn' = S.rsn /\ tr' = S.tr /\ lim' = S.lim /\ dec' = S.dec /\ q' = S.q

Init ==
  /\ cl = <<>> /\ w = [l \in Lits |-> <<>>] /\ val = [v \in Vars |-> "U"] /\ lvl = [v \in Vars |-> 0] /\ rsn = [v \in Vars |-> 0]
  /\ tr = <<>> /\ lim = <<>> /\ dec = <<>> /\ q = <<>> /\ fresh = <<>> /\ orig = {} /\ given = {} /\ dead = FALSE /\ lastOp = <<"init">>

\* sort by variable (stable insertion), then the filter of new_clause
RECURSIVE InsertByVar(_, _)
InsertByVar(sorted, x) ==
  IF sorted = <<>> THEN <<x>>
  ELSE IF Abs(Head(sorted)) <= Abs(x) THEN <<Head(sorted)>> \o InsertByVar(Tail(sorted), x) ELSE <<x>> \o sorted
RECURSIVE SortByVar(_, _)
SortByVar(rest, acc) == IF rest = <<>> THEN acc ELSE SortByVar(Tail(rest), InsertByVar(acc, Head(rest)))
\* returns <<"sat">> when satisfied / tautological, otherwise <<"lits", filtered>>
RECURSIVE Filter(_, _, _, _)
Filter(S, ls, i, acc) ==
  IF i > Len(ls) THEN <<"lits", acc>>
  ELSE LET x == ls[i]
           prev == IF acc = <<>> THEN 0 ELSE acc[Len(acc)]
       IN IF Value(S, x) = "T" \/ (prev # 0 /\ x = Neg(prev)) THEN <<"sat">>
          ELSE IF Value(S, x) # "F" /\ x # prev THEN Filter(S, ls, i + 1, Append(acc, x))
               ELSE Filter(S, ls, i + 1, acc)

NewClause(k) ==
  /\ Usable /\ lim = <<>> /\ k \notin given /\ \A j \in 1..(k - 1) : j \in given      \* the pool is given in its order
  /\ given' = given \cup {k}
  /\ orig' = orig \cup {{Pool[k][i] : i \in DOMAIN Pool[k]}}
  /\ LET f == Filter(St, SortByVar(Pool[k], <<>>), 1, <<>>)
     IN IF f[1] = "sat" THEN /\ Commit(St) /\ dead' = dead /\ lastOp' = <<"new_clause", k, TRUE>>
        ELSE IF f[2] = <<>> THEN /\ Commit(St) /\ dead' = TRUE /\ lastOp' = <<"new_clause", k, FALSE>>
        ELSE IF Len(f[2]) = 1
             THEN LET e == Enqueue(St, f[2][1], 0)
                  IN /\ Commit(e.S) /\ dead' = ~e.ok /\ lastOp' = <<"new_clause", k, e.ok>>
             ELSE /\ Commit(AddClause(St, f[2]).S) /\ dead' = dead /\ lastOp' = <<"new_clause", k, TRUE>>

Propagate ==
  /\ Usable
  /\ LET r == Prop(St, <<>>)
     IN /\ Commit(r.S) /\ dead' = ~r.ok /\ lastOp' = <<"propagate", r.ok, r.learnt>>
  /\ UNCHANGED <<orig, given>>

Assume(p) ==
  /\ Usable /\ q = <<>> /\ Len(lim) < MaxLevel
  /\ lastOp[1] # "new_clause"                             \* a propagation separates adding clauses from deciding
  /\ given = DOMAIN Pool                                  \* bound: the search starts when the whole pool was given
  /\ (val[Abs(p)] # "U" => lim = <<>>)                    \* bound: an already decided literal is only assumed at root level
  /\ LET S1 == [St EXCEPT !.lim = Append(@, Len(St.tr)), !.dec = Append(@, p)]
         e == Enqueue(S1, p, 0)
     IN IF ~e.ok THEN /\ Commit(e.S) /\ dead' = dead /\ lastOp' = <<"assume", p, FALSE, <<>>>>
        ELSE LET r == Prop(e.S, <<>>)
             IN /\ Commit(r.S) /\ dead' = ~r.ok /\ lastOp' = <<"assume", p, r.ok, r.learnt>>
  /\ UNCHANGED <<orig, given>>

\* sat_core::check(lits): the literals are assumed one after the other; a failure (the literal is false, a conflict at root
\* level, or a conflict whose backjump left the level just opened) ends it; in every case the levels above the one it
\* was called at are popped before it returns (a backjump may have gone below that level: those decisions are lost)
RECURSIVE CheckLoop(_, _, _, _, _)
CheckLoop(S, ls, i, rl, learnt) ==
  IF i > Len(ls) THEN [ok |-> TRUE, S |-> PopTo(S, rl), learnt |-> learnt, dead |-> FALSE]
  ELSE LET dl == DL(S)
           S1 == [S EXCEPT !.lim = Append(@, Len(S.tr)), !.dec = Append(@, ls[i])]
           e == Enqueue(S1, ls[i], 0)
       IN IF ~e.ok THEN [ok |-> FALSE, S |-> PopTo(e.S, rl), learnt |-> learnt, dead |-> FALSE]
          ELSE LET r == Prop(e.S, <<>>)
               IN IF ~r.ok THEN [ok |-> FALSE, S |-> r.S, learnt |-> learnt \o r.learnt, dead |-> TRUE]
                  ELSE IF DL(r.S) <= dl THEN [ok |-> FALSE, S |-> PopTo(r.S, rl), learnt |-> learnt \o r.learnt, dead |-> FALSE]
                  ELSE CheckLoop(r.S, ls, i + 1, rl, learnt \o r.learnt)
Check(k) ==
  /\ Usable /\ q = <<>> /\ given = DOMAIN Pool /\ lastOp[1] # "new_clause"
  /\ LET r == CheckLoop(St, CheckPool[k], 1, DL(St), <<>>)
     IN /\ Commit(r.S) /\ dead' = r.dead /\ lastOp' = <<"check", CheckPool[k], r.ok, r.learnt>>
  /\ UNCHANGED <<orig, given>>

Pop ==
  /\ ~dead /\ lim # <<>> /\ q = <<>>
  /\ Commit(PopLevel(St))
  /\ lastOp' = <<"pop">> /\ UNCHANGED <<orig, given, dead>>

NextSol ==
  /\ Usable /\ q = <<>> /\ lim # <<>>
  /\ \A i \in DOMAIN fresh : fresh[i]                \* every standing decision was a real one (precondition of next())
  /\ LET ng == [i \in 1..Len(dec) |-> Neg(dec[Len(dec) + 1 - i])]      \* reversed: the last decision first
         S1 == PopLevel(St)
         S2 == Record(S1, ng)
         r == Prop(S2, <<>>)
     IN /\ Commit(r.S) /\ dead' = ~r.ok /\ lastOp' = <<"next", r.ok, <<ng>> \o r.learnt>>
        \* next() excludes the branch it leaves on purpose: its no-good counts as a clause given by the caller
        /\ orig' = orig \cup {{ng[i] : i \in DOMAIN ng}}
  /\ UNCHANGED given

\* clause::simplify / clause::remove over the whole database, after a propagation
RemoveFrom(s, ci) == SelectSeq(s, LAMBDA x : x # ci)
RECURSIVE Simplify(_, _)
Simplify(S, ci) ==
  IF ci > Len(S.cl) THEN S
  ELSE LET ls == S.cl[ci]
       IN IF ls = <<>> THEN Simplify(S, ci + 1)
          ELSE IF \E i \in DOMAIN ls : Value(S, ls[i]) = "T"
               THEN Simplify([S EXCEPT !.cl[ci] = <<>>, !.w = [l \in Lits |-> IF l \in {Neg(ls[1]), Neg(ls[2])} THEN RemoveFrom(S.w[l], ci) ELSE S.w[l]],
                                       !.rsn = [v \in Vars |-> IF S.rsn[v] = ci THEN 0 ELSE S.rsn[v]]], ci + 1)
               ELSE Simplify([S EXCEPT !.cl[ci] = SelectSeq(ls, LAMBDA x : Value(S, x) = "U")], ci + 1)
SimplifyDb ==
  /\ Usable /\ lim = <<>>
  /\ LET r == Prop(St, <<>>)
     IN IF ~r.ok THEN /\ Commit(r.S) /\ dead' = TRUE /\ lastOp' = <<"simplify_db", FALSE>>
        ELSE /\ Commit(Simplify(r.S, 1)) /\ dead' = dead /\ lastOp' = <<"simplify_db", TRUE>>
  /\ UNCHANGED <<orig, given>>

Next ==
  \/ \E k \in DOMAIN Pool : NewClause(k)
  \/ Propagate \/ Pop \/ NextSol \/ SimplifyDb
  \/ \E p \in Lits : Assume(p)
  \/ \E k \in DOMAIN CheckPool : Check(k)
Spec == Init /\ [][Next]_vars

Bounded == Len(cl) <= Cardinality(DOMAIN Pool) + MaxLearnt

\* ---- properties ---------------------------------------------------------------------------------------------------------------
Assignments == [Vars -> BOOLEAN]
SatLit(a, l) == a[Abs(l)] = (l > 0)
SatSet(a, c) == \E l \in c : SatLit(a, l)
ModelsOf(C) == {a \in Assignments : \A c \in C : SatSet(a, c)}
Stable == q = <<>> /\ ~dead
Live(ci) == cl[ci] # <<>>
V(l) == Value(St, l)

\* the two watched literals: a clause is on exactly the lists of the negations of its first two literals, once each
Count(s, x) == Cardinality({i \in DOMAIN s : s[i] = x})
WatchInv ==
  ~dead => \A ci \in DOMAIN cl : \A l \in Lits :
             Count(w[l], ci) = IF Live(ci) /\ l \in {Neg(cl[ci][1]), Neg(cl[ci][2])} THEN 1 ELSE 0
\* completeness of unit propagation at every return: no live clause is falsified or unit
PropagationComplete ==
  Stable => \A ci \in DOMAIN cl : Live(ci) =>
              LET ls == cl[ci]
                  nf == {i \in DOMAIN ls : V(ls[i]) # "F"}
              IN (\E i \in DOMAIN ls : V(ls[i]) = "T") \/ Cardinality(nf) >= 2
\* C07: every assigned literal follows from the clauses given and the standing decisions
AssignedEntailed ==
  ~dead => LET M == {a \in ModelsOf(orig) : \A i \in DOMAIN dec : SatLit(a, dec[i])}
           IN \A v \in Vars : val[v] # "U" => \A a \in M : a[v] = (val[v] = "T")
\* C07: every clause of the database (simplified originals, recorded no-goods) follows from the clauses given
DatabaseEntailed ==
  \A ci \in DOMAIN cl : Live(ci) => \A a \in ModelsOf(orig) : SatSet(a, {cl[ci][i] : i \in DOMAIN cl[ci]})
\* C07: false at root level only if the clauses given are unsatisfiable
DeadOnlyIfUnsat == dead => ModelsOf(orig) = {}
\* C07: a complete assignment after a successful propagation satisfies every clause ever given
CompleteIsModel ==
  (Stable /\ \A v \in Vars : val[v] # "U") => \A c \in orig : \E l \in c : V(l) = "T"
\* bookkeeping the algorithm relies on
TrailInv ==
  /\ \A v \in Vars : (val[v] # "U") = (\E i \in DOMAIN tr : Abs(tr[i]) = v)
  /\ \A i \in DOMAIN tr : V(tr[i]) = "T" /\ \A j \in DOMAIN tr : i < j => lvl[Abs(tr[i])] <= lvl[Abs(tr[j])]
  /\ Len(lim) = Len(dec)
  /\ \A v \in Vars : val[v] # "U" => lvl[v] <= Len(lim)
ReasonHeadInv ==       \* clause::get_reason asserts it: the implied literal is the first of its reason
  ~dead => \A v \in Vars : (val[v] # "U" /\ rsn[v] # 0) =>
             /\ Live(rsn[v]) /\ Abs(cl[rsn[v]][1]) = v /\ V(cl[rsn[v]][1]) = "T"
             /\ \A i \in 2..Len(cl[rsn[v]]) : V(cl[rsn[v]][i]) = "F"
\* C08: the values at a level are exactly the consequences by unit propagation of clauses and decisions: checked through
\* AssignedEntailed + PropagationComplete; pop itself restores the trail prefix (TrailInv)
=============================================================================
