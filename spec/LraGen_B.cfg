SPECIFICATION GSpec
CONSTANTS
  NX = 2
  Rows <- RowsB
  Atoms <- AtomsB
  MaxLevel = 2
  WithPairs = FALSE
  EmitFrom = 0
  ReasonBug = FALSE
VIEW GView
ACTION_CONSTRAINT Emit
CHECK_DEADLOCK FALSE
