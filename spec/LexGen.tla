------------------------------- MODULE LexGen -------------------------------
(* Generator of lexer inputs (C16, C18): every string of length <= N over a 10-character   *)
(* alphabet chosen to reach every loop of the lexer (comment, string, numeral, identifier, *)
(* operator pairs, end of input), and a dictionary family: every keyword, every proper     *)
(* prefix of a keyword, every keyword followed / preceded by an identifier character, all  *)
(* pairs of operator characters, the literal forms. Expected token sequences come from     *)
(* Lexer!Lex. Written as NDJSON for harness/riddle_driver.                                  *)
EXTENDS Lexer, SequencesExt, Json, IOUtils, TLC

Out == IF "GEN_OUT" \in DOMAIN IOEnv THEN IOEnv.GEN_OUT ELSE "lexgen.ndjson"
N == IF "GEN_LEN" \in DOMAIN IOEnv THEN (IF IOEnv.GEN_LEN = "5" THEN 5 ELSE IF IOEnv.GEN_LEN = "3" THEN 3 ELSE 4) ELSE 4

Alphabet == {"/", "*", "\"", "\\", "\n", "a", "1", ".", " ", "="}
RECURSIVE Strings(_)
Strings(n) == IF n = 0 THEN {<<>>} ELSE LET S == Strings(n - 1) IN S \cup {Append(s, c) : s \in {t \in S : Len(t) = n - 1}, c \in Alphabet}

KW == {<<"b","o","o","l">>, <<"i","n","t">>, <<"r","e","a","l">>, <<"t","p">>, <<"s","t","r","i","n","g">>,
       <<"t","y","p","e","d","e","f">>, <<"e","n","u","m">>, <<"c","l","a","s","s">>, <<"g","o","a","l">>, <<"f","a","c","t">>,
       <<"p","r","e","d","i","c","a","t","e">>, <<"n","e","w">>, <<"o","r">>, <<"v","o","i","d">>, <<"r","e","t","u","r","n">>,
       <<"t","r","u","e">>, <<"f","a","l","s","e">>, <<"t","h","i","s">>}
KwPrefixes(w) == {SubSeq(w, 1, k) : k \in 1..Len(w)}
Ops == {".", ",", ":", ";", "(", ")", "[", "]", "{", "}", "+", "-", "*", "/", "&", "|", "=", ">", "<", "!", "^"}
Dictionary ==
  UNION {KwPrefixes(w) : w \in KW}
  \cup {Append(w, c) : w \in KW, c \in {"x", "1", "_", " ", ";", "("}}
  \cup {<<"x">> \o w : w \in KW}
  \cup {w \o <<" ">> \o v : w \in KW, v \in {<<"x">>, <<"1">>}}
  \cup {<<a, b>> : a \in Ops, b \in Ops}
  \cup {<<"x", a, b, "y">> : a \in Ops \ {".", "/", "*"}, b \in {"=", ">", "-"}}
  \cup {<<"1">>, <<"1", "2">>, <<"1", ".", "5">>, <<".", "5">>, <<"0", ".", "2", "5">>, <<"1", ".", "5", ".", "2">>, <<"1", "x">>,
        <<"\"", "a", "\"">>, <<"\"", "a", "\\", "\"", "b", "\"">>, <<"\"", "a">>, <<"\"", "\n", "\"">>, <<"#">>, <<"x", "$">>,
        <<"/", "/", "a">>, <<"/", "/", "a", "\n", "b">>, <<"/", "*", "a", "*", "/", "b">>, <<"/", "*", "*", "*", "/", "b">>,
        <<"/", "*", "a", "*", "*", "/", "b">>, <<"/", "*", "a">>, <<"a", "/", "b">>, <<"a", "\t", "b", "\r", "\n", "c">>}

Cases == {s \in Strings(N) \cup Dictionary : Judged(s)}
ASSUME ndJsonSerialize(Out, SetToSeq({[input |-> s, tokens |-> Lex(s)] : s \in Cases}))
ASSUME PrintT(<<"GENERATED", Cardinality(Cases)>>)

VARIABLE x
Init == x = 0
Next == x' = x
Spec == Init /\ [][Next]_x
=============================================================================
