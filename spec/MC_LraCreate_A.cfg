SPECIFICATION LSpec
CONSTANTS
  NU = 0
  MaxCalls = 0
  MaxUnits = 0
  MaxLen = 0
  ArgPool <- NoPool
  Kinds <- NoKinds
  NestRet = FALSE
  WithConsts = FALSE
  UnitsAfter = FALSE
  NX = 2
  Boxes <- BoxesA
  Coefs <- CoefsA
  Consts = {0, 1, 2}
  Ops = {"lt", "leq", "eq", "geq", "gt"}
  DefPool <- DefsA
  CoefPool <- NoPool
  MaxRel = 1
  Grid <- GridA
INVARIANT RelationMeaning
INVARIANT SlackConsistent
INVARIANT RowsOverPlain
CHECK_DEADLOCK FALSE
