---------------------------- MODULE LraCreateGen ----------------------------
(* Test generator bound to LraCreate: every transition of the model's state graph is printed as one test - the shortest   *)
(* history TLC found to the source state plus the call - with the answer, the number of propositional variables and the   *)
(* bounds and value of every arithmetic variable after every call. tools/lracreplay.py replays them on the real           *)
(* lra_theory through net_driver; an execution that deviates from the model is handed to NetworkTrace, which decides.     *)
EXTENDS MC_LraCreate, Json

VARIABLE ops

GInit == LInit /\ ops = <<>>
GNext == LNext /\ ops' = Append(ops, [call |-> lastOp', n |-> nv', lra |-> [i \in 1..nx' |-> <<lbs'[i], ubs'[i], vls'[i]>>]])
GSpec == GInit /\ [][GNext]_<<lvars, ops>>
GView == lvars
Emit == PrintT(<<"LRACTEST", ToJson([ops |-> ops', nx |-> NX])>>)
=============================================================================
