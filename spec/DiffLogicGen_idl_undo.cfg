SPECIFICATION GSpec
CONSTANTS
  N = 3
  Atoms <- AtomsUndo
  MaxLevel = 2
  Scale = 1
  PropGuardBug = FALSE
  EmitFrom = 0
  SavePredBug = FALSE
VIEW GView
ACTION_CONSTRAINT Emit
CHECK_DEADLOCK FALSE
