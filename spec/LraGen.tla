------------------------------- MODULE LraGen -------------------------------
(* Test generator bound to LraImpl: one test per transition of the model's state graph (shortest history + the call),  *)
(* with the bounds, the truth values of the assertion literals and the lemmas the model has after every call.           *)
(* Above root level a decision is one literal: a push is always followed by the assertion of its literal (the sat     *)
(* core's assume). tools/lrareplay.py replays the tests on the real lra_theory through net_driver and compares;         *)
(* executions that deviate from the model, and those that end in a conflict (whose analysis the model does not follow), *)
(* are decided by the property-level trace specification NetworkTrace.                                                  *)
EXTENDS MC_LraImpl, Json

CONSTANT EmitFrom    \* 0: every transition is a test (exhaustive search); k: only histories of at least k steps and those that end
                     \* in a conflict are (random walks over the model: tlc -simulate)
VARIABLE ops

SeqOfSet(S) == Asc(S)
Obs == [lb |-> [z \in 1..(NX + NR) |-> lb'[z - 1].v], ub |-> [z \in 1..(NX + NR) |-> ub'[z - 1].v],
        aval |-> aval', dl |-> Len(layers')]
LemmaSeq(L) == LET RECURSIVE Enum(_)
                   Enum(S) == IF S = {} THEN <<>> ELSE LET c == CHOOSE x \in S : TRUE IN <<SeqOfSet(c)>> \o Enum(S \ {c})
               IN Enum(L)
Call ==
  CASE lastOp'[1] = "assert" -> [k |-> "assert", p |-> lastOp'[2], lemmas |-> LemmaSeq(lastOp'[3]), obs |-> Obs]
    [] lastOp'[1] = "conflict" -> [k |-> "conflict", p |-> lastOp'[2], lemmas |-> LemmaSeq(lastOp'[3]), cnfl |-> SeqOfSet(lastOp'[4])]
    [] lastOp'[1] = "push" -> [k |-> "push"]
    [] OTHER -> [k |-> "pop", obs |-> Obs]
GInit == Init /\ ops = <<>>
GNext ==
  /\ LET Some == \/ \E i \in 1..NA, tv \in {"T", "F"} : AssertLit(i, tv)
                 \* two literals on the same variable in one batch (a decision that implies both), in both orders of arrival:
                 \* the theory sees the first while the second is assigned but not yet propagated
                 \/ \E i, j \in 1..NA, tvi, tvj \in {"T", "F"} : i # j /\ Atoms[i].x = Atoms[j].x /\ lastOp[1] = "push" /\ AssertBatch(<<IF tvi = "T" THEN i ELSE -i, IF tvj = "T" THEN j ELSE -j>>)
     IN IF lastOp[1] = "push" THEN Some ELSE Push \/ Pop \/ (layers = <<>> /\ Some)
  /\ ops' = Append(ops, Call)
GSpec == GInit /\ [][GNext]_<<vars, ops>>
\* the tests are drawn per abstract state: bounds with reasons, truth values, undo layers, basis (values and row
\* coefficients, which depend on the path, are not part of the identity of a test)
GView == <<lb, ub, aval, layers, DOMAIN tab, lastOp[1]>>
Emit == (Len(ops') >= EmitFrom \/ lastOp'[1] = "conflict") => PrintT(<<"LRATEST", ToJson([ops |-> ops', nx |-> NX])>>)
Setup == PrintT(<<"LRASETUP", ToJson([rows |-> [k \in 1..NR |-> [z \in 1..NX |-> IF (z - 1) \in DOMAIN Rows[k] THEN Rows[k][z - 1] ELSE 0]],
                                       atoms |-> [i \in 1..NA |-> <<Atoms[i].x, Atoms[i].o, Atoms[i].v>>]])>>)
ASSUME Setup
=============================================================================
