------------------------------ MODULE PoolTrace ------------------------------
(* C20: executions of the real smt::thread_pool (harness/pool_driver: rounds of "enqueue the tasks of a pivot, then      *)
(* join", as lra_theory::pivot does) checked against what spec/ThreadPool.tla guarantees for every interleaving:           *)
(*   EachTaskOnce                 every enqueued task is started exactly once and ends exactly once;                       *)
(*   JoinReturnsOnlyWhenAllDone   when join() has returned every task enqueued before it has ended;                        *)
(*   JoinReturns                  join() returns (the driver's watchdog reports a join() that does not: "hang").           *)
(* The events carry a sequentially consistent sequence number: the lines of an execution are in that order. The rounds     *)
(* that are not recorded event by event are summarised by a "bulk" line: the number of tasks that had not run exactly      *)
(* once when their join() returned.                                                                                       *)
EXTENDS Integers, Sequences, FiniteSets, Json, IOUtils, TLC

VARIABLES l, enq, started, ended, joining
vars == <<l, enq, started, ended, joining>>
Trace == ndJsonDeserialize(IOEnv.TRACE)
Chk(name, cond) == IF cond THEN TRUE ELSE PrintT(<<"CONTRACT", name, l>>) /\ FALSE

Init == l = 1 /\ enq = {} /\ started = {} /\ ended = {} /\ joining = FALSE
Step(ev) ==
  CASE ev.e = "reset" -> enq' = {} /\ started' = {} /\ ended' = {} /\ joining' = FALSE
    [] ev.e = "enq" ->
         /\ Chk("Structure", ~joining /\ ev.t \notin enq)
         /\ enq' = enq \cup {ev.t} /\ UNCHANGED <<started, ended, joining>>
    [] ev.e = "start" ->
         /\ Chk("EachTaskOnce", ev.t \in enq /\ ev.t \notin started)
         /\ started' = started \cup {ev.t} /\ UNCHANGED <<enq, ended, joining>>
    [] ev.e = "end" ->
         /\ Chk("EachTaskOnce", ev.t \in started /\ ev.t \notin ended)
         /\ ended' = ended \cup {ev.t} /\ UNCHANGED <<enq, started, joining>>
    [] ev.e = "join" -> joining' = TRUE /\ UNCHANGED <<enq, started, ended>>
    [] ev.e = "joined" ->
         /\ Chk("Structure", joining)
         /\ Chk("JoinReturnsOnlyWhenAllDone", ended = enq)
         \* the next round starts from scratch
         /\ enq' = {} /\ started' = {} /\ ended' = {} /\ joining' = FALSE
    [] ev.e = "bulk" ->
         /\ Chk("JoinReturnsOnlyWhenAllDone", ev.bad = 0)
         /\ UNCHANGED <<enq, started, ended, joining>>
    [] ev.e = "hang" -> Chk("JoinReturns", FALSE) /\ UNCHANGED <<enq, started, ended, joining>>
    [] OTHER -> Chk("Structure", FALSE) /\ UNCHANGED <<enq, started, ended, joining>>
Next == l <= Len(Trace) /\ Step(Trace[l]) /\ l' = l + 1
Spec == Init /\ [][Next]_vars
Accepted ==
  /\ PrintT(<<"MATCHED", TLCGet("stats").diameter - 1, Len(Trace)>>)
  /\ TLCGet("stats").diameter - 1 = Len(Trace)
=============================================================================
