------------------------------- MODULE LraSem -------------------------------
(* Semantics of linear real arithmetic used as the oracle for C09 / C11 (and the LRA part of *)
(* C07, C01, C02): a constraint is  e < 0  or  e <= 0  for a linear expression e (module     *)
(* Lin); a finite set of constraints is decided exactly by Fourier-Motzkin elimination over  *)
(* integer-scaled coefficients. No division, no floating point.                              *)
EXTENDS Lin

\* ---- constraints -----------------------------------------------------------------------
\* [e |-> Lin, strict |-> BOOLEAN]  means  e < 0 (strict) or e <= 0
Con(e, strict) == [e |-> e, strict |-> strict]

\* relation  l rel r  as a set of constraints (a conjunction); rel in {"lt","leq","eq","geq","gt"}
RelCons(rel, l, r) ==
  CASE rel = "lt" -> {Con(LSub(l, r), TRUE)}
    [] rel = "leq" -> {Con(LSub(l, r), FALSE)}
    [] rel = "geq" -> {Con(LSub(r, l), FALSE)}
    [] rel = "gt" -> {Con(LSub(r, l), TRUE)}
    [] rel = "eq" -> {Con(LSub(l, r), FALSE), Con(LSub(r, l), FALSE)}
\* the negation of a single-inequality relation
NegRel(rel) ==
  CASE rel = "lt" -> "geq" [] rel = "leq" -> "gt" [] rel = "geq" -> "lt" [] rel = "gt" -> "leq"

\* truth of a relation on InfRat values
RelHolds(rel, a, b) ==
  CASE rel = "lt" -> IRLt(a, b)
    [] rel = "leq" -> IRLe(a, b)
    [] rel = "eq" -> IREqv(a, b)
    [] rel = "geq" -> IRGe(a, b)
    [] rel = "gt" -> IRGt(a, b)
ConHolds(c, val) == IF c.strict THEN IRIsNeg(LEval(c.e, val)) ELSE ~IRIsPos(LEval(c.e, val))

\* ---- integer scaling -------------------------------------------------------------------
LCM(a, b) == IF a = 0 \/ b = 0 THEN 0 ELSE (Abs(a) \div GCD(a, b)) * Abs(b)
RECURSIVE LcmOver(_, _)
LcmOver(f, xs) == IF xs = {} THEN 1 ELSE LET x == CHOOSE y \in xs : TRUE IN LCM(f[x][2], LcmOver(f, xs \ {x}))
RECURSIVE GcdOver(_, _)
GcdOver(f, xs) == IF xs = {} THEN 0 ELSE LET x == CHOOSE y \in xs : TRUE IN GCD(f[x], GcdOver(f, xs \ {x}))

\* integer form: [c |-> function var -> non-zero Int, k |-> Int, strict]  meaning  sum c_x x + k  (<|<=) 0
IntForm(con) ==
  LET m == LCM(LcmOver(con.e.v, DOMAIN con.e.v), con.e.k[2])
  IN [c |-> [x \in DOMAIN con.e.v |-> (con.e.v[x][1] * m) \div con.e.v[x][2]],
      k |-> (con.e.k[1] * m) \div con.e.k[2],
      strict |-> con.strict]
Reduce(ic) ==
  LET g0 == GcdOver(ic.c, DOMAIN ic.c)
      g == IF g0 = 0 THEN 1 ELSE g0         \* only the coefficients: the constant may then be fractional ...
  IN IF g = 1 \/ ic.k % g # 0 THEN ic       \* ... so reduce only when it divides the constant as well
     ELSE [c |-> [x \in DOMAIN ic.c |-> ic.c[x] \div g], k |-> ic.k \div g, strict |-> ic.strict]
ICoef(ic, x) == IF x \in DOMAIN ic.c THEN ic.c[x] ELSE 0

\* p has a positive, n a negative coefficient on x: the combination that eliminates x
Combine(p, n, x) ==
  LET a == p.c[x]
      b == -n.c[x]
      xs == (DOMAIN p.c \cup DOMAIN n.c) \ {x}
      cf == [y \in xs |-> b * ICoef(p, y) + a * ICoef(n, y)]
  IN Reduce([c |-> [y \in {z \in xs : cf[z] # 0} |-> cf[y]],
             k |-> b * p.k + a * n.k,
             strict |-> p.strict \/ n.strict])

Trivial(ic) == DOMAIN ic.c = {}
Contradictory(ic) == Trivial(ic) /\ (IF ic.strict THEN ic.k >= 0 ELSE ic.k > 0)

RECURSIVE FMInfeasible(_)
FMInfeasible(S) ==
  IF \E ic \in S : Contradictory(ic) THEN TRUE
  ELSE LET T == {ic \in S : ~Trivial(ic)}
       IN IF T = {} THEN FALSE
          ELSE LET x == CHOOSE y \in UNION {DOMAIN ic.c : ic \in T} : TRUE
                   P == {ic \in T : ICoef(ic, x) > 0}
                   N == {ic \in T : ICoef(ic, x) < 0}
                   Z == {ic \in T : ICoef(ic, x) = 0}
               IN FMInfeasible(Z \cup {Combine(p, n, x) : p \in P, n \in N})

\* a finite set of constraints has no real solution
Infeasible(cons) == FMInfeasible({Reduce(IntForm(c)) : c \in cons})
Feasible(cons) == ~Infeasible(cons)

\* cons entails  e (<|<=) 0
Entails(cons, c) == Infeasible(cons \cup {Con(LNeg(c.e), ~c.strict)})

\* bound claims on a variable x: "x >= b" / "x <= b" with b an InfRat (infinitesimal part = strictness)
\* every solution of cons satisfies the claimed lower bound b on expression e
LbValid(cons, e, b) ==
  IF IsNInf(b[1]) THEN TRUE
  ELSE IF IsPInf(b[1]) THEN Infeasible(cons)
  ELSE \* a solution with e < r (or e <= r when the bound is strict) must not exist
       Infeasible(cons \cup {Con(LSubK(e, b[1]), ~IsPos(b[2]))})
UbValid(cons, e, b) ==
  IF IsPInf(b[1]) THEN TRUE
  ELSE IF IsNInf(b[1]) THEN Infeasible(cons)
  ELSE Infeasible(cons \cup {Con(LNeg(LSubK(e, b[1])), ~IsNeg(b[2]))})
=============================================================================
