SPECIFICATION Spec
CONSTANTS
  NU = 2
  MaxCalls = 1
  MaxUnits = 2
  MaxLen = 3
  ArgPool <- NoPool
  Kinds = {"eq", "conj", "disj", "amo", "exo"}
  NestRet = FALSE
  WithConsts = TRUE
  UnitsAfter = FALSE
INVARIANT TypeOK
INVARIANT ReifiedMeaning
INVARIANT CacheSound
PROPERTY Conservative
PROPERTY NotExcluding
CHECK_DEADLOCK FALSE
