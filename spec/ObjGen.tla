------------------------------- MODULE ObjGen -------------------------------
(* Generator and reference semantics for the object-oriented part of RIDDLE (C17).           *)
(* A case is a class table (chain, fork, or a class with two supertypes), a sequence of       *)
(* instance creations, the declaration of an object variable at some point of that sequence,  *)
(* and one constraint on it (a field value, an equality or disequality with an instance, a    *)
(* field reached through a chain of two variables, a bound on a field that is a variable  *)
(* of its own, bounded differently in every instance; enum types with included enums). The reference semantics gives the domain  *)
(* of the variable at its declaration (exactly the instances of its type and subtypes created *)
(* so far), whether the program has a solution and which instances the variable may denote.   *)
EXTENDS Integers, Sequences, FiniteSets, SequencesExt, Json, IOUtils, TLC

Out == IF "GEN_OUT" \in DOMAIN IOEnv THEN IOEnv.GEN_OUT ELSE "objgen.ndjson"

\* class tables: name -> set of direct supertypes
Tables == [ chain |-> [A |-> {}, B |-> {"A"}, C |-> {"B"}],
            fork |-> [A |-> {}, B |-> {"A"}, C |-> {"A"}],
            multi |-> [A |-> {}, B |-> {}, C |-> {"A", "B"}] ]
Classes == {"A", "B", "C"}
RECURSIVE Ancestors(_, _)
Ancestors(tb, c) == {c} \cup UNION {Ancestors(tb, s) : s \in tb[c]}
SubtypeOf(tb, c, t) == t \in Ancestors(tb, c)

Decl(tname, tb) ==
  CASE tname = "chain" -> "class A { real id; A(real id) : id(id) {} } class B : A { B(real id) : A(id) {} } class C : B { C(real id) : B(id) {} } "
    [] tname = "fork" -> "class A { real id; A(real id) : id(id) {} } class B : A { B(real id) : A(id) {} } class C : A { C(real id) : A(id) {} } "
    [] tname = "multi" -> "class A { real id; A(real id) : id(id) {} } class B { real w = 7.0; } class C : A, B { C(real id) : A(id) {} } "
Num(k) == CASE k = 0 -> "0.0" [] k = 1 -> "1.0" [] k = 2 -> "2.0" [] k = 3 -> "3.0" [] k = 4 -> "4.0"
IName(i) == CASE i = 1 -> "i1" [] i = 2 -> "i2" [] i = 3 -> "i3" [] i = 4 -> "i4"
New(c, i, k) == IF c = "B" /\ FALSE THEN "" ELSE c \o " " \o IName(i) \o " = new " \o c \o "(" \o Num(k) \o "); "
NewIn(tname, c, i, k) == IF tname = "multi" /\ c = "B" THEN "B " \o IName(i) \o " = new B(); " ELSE New(c, i, k)

\* a case: table, instance types (sequence of 3 classes, instance j has id value ids[j]), position of the variable
\* declaration (after the first 'pos' creations), declared type, constraint
ConKinds == {"none", "id0", "id1", "id2", "eq1", "eq3", "neq1", "neq2"}
RawCases ==
  {[tb |-> tn, ts |-> ts, ids |-> ids, pos |-> pos, vt |-> vt, con |-> con] :
     tn \in {"chain", "fork", "multi"}, ts \in {<<"A", "B", "C">>, <<"B", "B", "A">>, <<"C", "A", "B">>, <<"A", "A", "C">>},
     ids \in {<<0, 1, 2>>, <<1, 1, 0>>}, pos \in {2, 3}, vt \in Classes, con \in ConKinds}

Dom0(c) == {j \in 1..c.pos : SubtypeOf(Tables[c.tb], c.ts[j], c.vt)}
\* instances of class B of the multi table have no id field (value of 'w' is 7)
HasId(c, j) == ~(c.tb = "multi" /\ c.ts[j] = "B")
Allowed(c) ==
  CASE c.con = "none" -> Dom0(c)
    [] c.con \in {"id0", "id1", "id2"} ->
         LET k == IF c.con = "id0" THEN 0 ELSE IF c.con = "id1" THEN 1 ELSE 2 IN {j \in Dom0(c) : HasId(c, j) /\ c.ids[j] = k}
    [] c.con = "eq1" -> Dom0(c) \cap {1}
    [] c.con = "eq3" -> Dom0(c) \cap {3}
    [] c.con = "neq1" -> Dom0(c) \ {1}
    [] c.con = "neq2" -> Dom0(c) \ {2}
\* well-typed: the variable type has an 'id' field when the constraint uses it; the domain has at least two
\* instances (a variable over one instance is that instance, over none is not declarable); instances compared with
\* the variable have a type related to it
Related(c, j) == SubtypeOf(Tables[c.tb], c.ts[j], c.vt) \/ SubtypeOf(Tables[c.tb], c.vt, c.ts[j])
WellTyped(c) ==
  /\ Cardinality(Dom0(c)) >= 2
  /\ c.con \in {"id0", "id1", "id2"} => ~(c.tb = "multi" /\ c.vt = "B")
  /\ c.con \in {"eq1", "neq1"} => Related(c, 1)
  /\ c.con = "neq2" => Related(c, 2)
  /\ c.con = "eq3" => Related(c, 3)
ConText(c) ==
  CASE c.con = "none" -> ""
    [] c.con = "id0" -> "v.id == 0.0; " [] c.con = "id1" -> "v.id == 1.0; " [] c.con = "id2" -> "v.id == 2.0; "
    [] c.con = "eq1" -> "v == i1; " [] c.con = "eq3" -> "v == i3; " [] c.con = "neq1" -> "v != i1; " [] c.con = "neq2" -> "v != i2; "
RECURSIVE News(_, _, _)
News(c, from, to) == IF from > to THEN "" ELSE NewIn(c.tb, c.ts[from], from, c.ids[from]) \o News(c, from + 1, to)
Text(c) == Decl(c.tb, Tables[c.tb]) \o News(c, 1, c.pos) \o c.vt \o " v; " \o News(c, c.pos + 1, 3) \o ConText(c)
Names(S) == {IName(j) : j \in S}
ObjCase(c) == [kind |-> "obj", fam |-> "table", text |-> Text(c), var |-> "v", dom0 |-> SetToSeq(Names(Dom0(c))), allowed |-> SetToSeq(Names(Allowed(c))),
               sat |-> IF Allowed(c) # {} THEN 1 ELSE 0]

\* field access through a chain of variables: holders referring to instances
HolderCases ==
  {[kind |-> "obj", fam |-> "holder",
    text |-> "class A { real id; A(real id) : id(id) {} } class H { A ref; H(A ref) : ref(ref) {} } "
             \o "A i1 = new A(0.0); A i2 = new A(1.0); A i3 = new A(" \o Num(k3) \o "); H h1 = new H(i1); H h2 = new H(i2); H h3 = new H(i3); "
             \o "H v; v.ref.id == " \o Num(k) \o "; ",
    var |-> "v", dom0 |-> <<"h1", "h2", "h3">>,
    allowed |-> SetToSeq({h \in {"h1", "h2", "h3"} : (h = "h1" /\ k = 0) \/ (h = "h2" /\ k = 1) \/ (h = "h3" /\ k = k3)}),
    sat |-> IF k \in {0, 1, k3} THEN 1 ELSE 0] : k \in 0..3, k3 \in {1, 2}}

\* a field that is a variable of its own: every instance bounds it in its constructor body; the constraint posted through
\* the object variable can be met by exactly the instances whose range reaches it
RangeSet == {<<0, 1>>, <<1, 3>>, <<2, 3>>, <<0, 3>>, <<2, 2>>}
Rels == {"ge", "le", "eq", "gt", "lt"}
RelText(r) == CASE r = "ge" -> ">=" [] r = "le" -> "<=" [] r = "eq" -> "==" [] r = "gt" -> ">" [] r = "lt" -> "<"
Fits(rg, r, k) == CASE r = "ge" -> rg[2] >= k [] r = "le" -> rg[1] <= k [] r = "eq" -> rg[1] <= k /\ k <= rg[2] [] r = "gt" -> rg[2] > k [] r = "lt" -> rg[1] < k
RangeCases ==
  {[kind |-> "obj", fam |-> "range",
    text |-> "class T { real level; T(real lo, real hi) { level >= lo; level <= hi; } } "
             \o "T i1 = new T(" \o Num(r1[1]) \o ", " \o Num(r1[2]) \o "); T i2 = new T(" \o Num(r2[1]) \o ", " \o Num(r2[2]) \o "); "
             \o "T i3 = new T(" \o Num(r3[1]) \o ", " \o Num(r3[2]) \o "); T v; v.level " \o RelText(r) \o " " \o Num(k) \o "; ",
    var |-> "v", dom0 |-> <<"i1", "i2", "i3">>,
    allowed |-> SetToSeq({IName(j) : j \in {i \in 1..3 : Fits(<<r1, r2, r3>>[i], r, k)}}),
    sat |-> IF \E i \in 1..3 : Fits(<<r1, r2, r3>>[i], r, k) THEN 1 ELSE 0] :
     r1 \in RangeSet, r2 \in RangeSet, r3 \in RangeSet, r \in Rels, k \in 0..3}

\* enum types: an enum variable ranges over the declared values and over the values of the included enums. k variables of
\* the enum that must be pairwise different exist iff the enum has at least k values; a variable of the enum can equal a
\* variable of the included enum iff it is included
Quote(str) == "\"" \o str \o "\""
RECURSIVE EnumVals(_, _)
EnumVals(prefix, n) == IF n = 0 THEN "" ELSE (IF n > 1 THEN EnumVals(prefix, n - 1) \o ", " ELSE "") \o Quote(prefix \o Num(n))
RECURSIVE VarList(_)
VarList(k) == IF k = 1 THEN "x1" ELSE VarList(k - 1) \o ", x" \o (CASE k = 2 -> "2" [] k = 3 -> "3" [] k = 4 -> "4" [] k = 5 -> "5")
XName(i) == "x" \o (CASE i = 1 -> "1" [] i = 2 -> "2" [] i = 3 -> "3" [] i = 4 -> "4" [] i = 5 -> "5")
RECURSIVE AllDiff(_, _)
AllDiff(i, k) == IF i >= k THEN "" ELSE (LET RECURSIVE Row(_)
                                              Row(j) == IF j > k THEN "" ELSE XName(i) \o " != " \o XName(j) \o "; " \o Row(j + 1)
                                          IN Row(i + 1)) \o AllDiff(i + 1, k)
EnumCases ==
  {[kind |-> "verdict", fam |-> "enum",
    text |-> "enum A {" \o EnumVals("a", nA) \o "}; enum B {" \o EnumVals("b", nB) \o "}" \o (IF incl THEN " | A" ELSE "") \o "; B " \o VarList(k) \o "; " \o AllDiff(1, k),
    var |-> "x1", dom0 |-> <<>>, allowed |-> <<>>,
    sat |-> IF k <= nB + (IF incl THEN nA ELSE 0) THEN 1 ELSE 0] : nA \in 1..3, nB \in 1..2, incl \in BOOLEAN, k \in 2..5}
  \cup
  {[kind |-> "verdict", fam |-> "enum",
    text |-> "enum A {" \o EnumVals("a", nA) \o "}; enum B {" \o EnumVals("b", nB) \o "}" \o (IF incl THEN " | A" ELSE "") \o "; B x1; A y; x1 == y; ",
    var |-> "x1", dom0 |-> <<>>, allowed |-> <<>>, sat |-> IF incl THEN 1 ELSE 0] : nA \in 1..3, nB \in 1..2, incl \in BOOLEAN}

\* a variable of a supertype passed to a predicate parameter of a subtype: the variable is pruned to the instances of the
\* subtype and IS the parameter (what the rule says about the parameter holds for the variable)
DowncastCases ==
  {[kind |-> "obj", fam |-> "downcast",
    text |-> "class A { real id; A(real id) : id(id) {} } class B : A { B(real id) : A(id) {} } "
             \o "B i1 = new B(1.0); B i2 = new B(2.0); A i3 = new A(3.0); A i4 = new A(" \o Num(k4) \o "); predicate P(B p) { p.id == " \o Num(k) \o "; } "
             \o "A v; goal g = new P(p:v); " \o (IF k2 = 0 THEN "" ELSE "v.id == " \o Num(k2) \o "; "),
    var |-> "v", dom0 |-> <<"i1", "i2", "i3", "i4">>,
    allowed |-> SetToSeq({IName(j) : j \in {i \in {1, 2} : i = k /\ (k2 = 0 \/ k2 = i)}}),
    sat |-> IF k \in {1, 2} /\ (k2 = 0 \/ k2 = k) THEN 1 ELSE 0] : k \in 1..3, k2 \in 0..3, k4 \in {1, 2}}

\* the same over three levels A > B > C: the parameter has the MIDDLE type, the variable the top type, instances of all three
\* levels exist: the variable is pruned to the instances of B *and of its subtype C* (i1 : C, i2 : B, i3 : A, i4 : C); with or
\* without a rule on the field, with or without a constraint that picks one instance; a fact instead of a goal as well (the rule of a predicate is applied to
\* goals only: for a fact the body says nothing, the pruning to the parameter's type remains)
Downcast3Cases ==
  {[kind |-> "obj", fam |-> "downcast",
    text |-> "class A { real id; A(real id) : id(id) {} } class B : A { B(real id) : A(id) {} } class C : B { C(real id) : B(id) {} } "
             \o "C i1 = new C(1.0); B i2 = new B(2.0); A i3 = new A(3.0); C i4 = new C(4.0); predicate P(B p) { "
             \o (IF k = 0 THEN "" ELSE "p.id == " \o Num(k) \o "; ") \o "} "
             \o "A v; " \o (IF fact THEN "fact" ELSE "goal") \o " g = new P(p:v); " \o (IF k2 = 0 THEN "" ELSE "v.id == " \o Num(k2) \o "; "),
    var |-> "v", dom0 |-> <<"i1", "i2", "i3", "i4">>,
    allowed |-> SetToSeq({IName(j) : j \in {i \in {1, 2, 4} : (fact \/ k = 0 \/ i = k) /\ (k2 = 0 \/ k2 = i)}}),
    sat |-> IF \E i \in {1, 2, 4} : (fact \/ k = 0 \/ i = k) /\ (k2 = 0 \/ k2 = i) THEN 1 ELSE 0] : k \in 0..4, k2 \in 0..4, fact \in BOOLEAN}

\* an enum that includes an enum that includes an enum
NestedEnumCases ==
  {[kind |-> "verdict", fam |-> "enum",
    text |-> "enum L {" \o EnumVals("l", nL) \o "}; enum M {" \o EnumVals("m", 1) \o "} | L; enum T {" \o EnumVals("t", 1) \o "} | M; T " \o VarList(k) \o "; " \o AllDiff(1, k),
    var |-> "x1", dom0 |-> <<>>, allowed |-> <<>>, sat |-> IF k <= 2 + nL THEN 1 ELSE 0] : nL \in 1..2, k \in 2..5}
  \cup
  {[kind |-> "verdict", fam |-> "enum",
    text |-> "enum L {" \o EnumVals("l", 2) \o "}; enum M {" \o EnumVals("m", 1) \o "} | L; enum T {" \o EnumVals("t", 1) \o "} | M; T x1; L y; x1 == y; ",
    var |-> "x1", dom0 |-> <<>>, allowed |-> <<>>, sat |-> 1]}

Cases == {ObjCase(c) : c \in {x \in RawCases : WellTyped(x)}} \cup HolderCases \cup RangeCases \cup EnumCases \cup NestedEnumCases \cup DowncastCases \cup Downcast3Cases
ASSUME ndJsonSerialize(Out, SetToSeq(Cases))
ASSUME PrintT(<<"GENERATED", Cardinality(Cases)>>)

VARIABLE x
Init == x = 0
Next == x' = x
Spec == Init /\ [][Next]_x
=============================================================================
